"""C06 — GLM fitting returns the (penalised) MLE with correct inference."""
import math
import os

from .common import Failure, f2h, h2f, parse_reply, vec, fs

ID = "C06"
BIN = "c06"
PROOF_MODULES = ["Compute.Props.C06", "Compute.Lemmas.C06Perm", "Compute.Lemmas.C06Spec", "Compute.Lemmas.C06Basic",
                 "Compute.Props.C06Families", "Compute.Props.C06Review", "Compute.Props.C06History"]
REQUIRED_THEOREMS = [
    "Cv.C06.dbeta_spec", "Cv.C06.ddbeta_spec", "Cv.C06.penalty_spec",
    "Cv.C06.fixed_point_iff_score", "Cv.C06.family_tables", "Cv.C06.gaussian_deviance_eq_rss", "Cv.C06.gaussian_normal_equations",
    "Cv.C06.fit_result", "Cv.C06.fit_ok_converged", "Cv.C06.fit_stored", "Cv.C06.dispersion_spec", "Cv.C06.covariance_spec",
    "Cv.C06.standardError_spec", "Cv.C06.predict_spec", "Cv.C06.aic_spec", "Cv.C06.bic_spec",
    "Cv.C06.dbeta_perm", "Cv.C06.ddbeta_perm", "Cv.C06.deviance_perm", "Cv.C06.mean_perm",
    "Cv.C06.loopBody_perm", "Cv.C06.fitLoop_perm",
    "Cv.C06.hasDerivAt_invLinkF", "Cv.C06.dInvLink_is_derivative", "Cv.C06.canonical_variance_eq_dInvLink",
    "Cv.C06.canonical_variance_eq_dInvLink_list", "Cv.C06.log_link_gamma_working_weight", "Cv.C06.penalizedDeviance_ge",
    "Cv.C06.penalizedDeviance_eq_iff", "Cv.C06.penalizedDeviance_nil", "Cv.C06.setCoef_keeps", "Cv.C06.predict_setCoef",
    "Cv.C06.predict_setCoef_spec", "Cv.C06.initialWorking_textbook", "Cv.C06.initialIntercept_perm",
    "Cv.C06.fit_last_pass", "Cv.C06.gaussian_pass_solves", "Cv.C06.gaussian_fit_normal_equations",
    "Cv.C06.covariance_isInverse", "Cv.C06.fit_ok_converged_ne_zero", "Cv.C06.hasConverged_zero",
    "Cv.C06.gaussian_fit_normal_equations_solve",
    "Cv.C06.view_after_fit", "Cv.C06.fit_history_independent", "Cv.C06.setters_keep_stored",
]
RULE = ("six families x designs n 20..120 (quick) / 20..500 (thorough), p 1..6 with standardised random, polynomial and "
        "indicator columns x {no weights, random weights, constant c in {2,3,.5,.25,7,10}, piecewise constant, all-equal-but-one} x {no offset, offset} x alpha in {0, 0.1, 1, 10} x tolerance "
        "1e-5..1e-14 x max_iter in {1..200}, responses simulated from the model with |beta| <= 1.5; every request "
        "followed (with probability 1/3) by the same problem with permuted rows; plus panic classes; every public method of "
        "ExponentialFamily called directly (has_dispersion, variance, inv_link, d_inv_link, deviance, penalized_deviance, "
        "initial_working_response/weights) on domain-boundary lists and random points, GLM::set_coef after a fit / on a fresh "
        "object / before a (re)fit with right and wrong lengths; object histories on ONE GLM: k fits with setters in between (op "
        "hist) and fits interleaved with READS of every accessor without any setter in between, with pub-field assignment, shape "
        "changes and read-set-read chains (op hist2), every fit / read compared with a fresh twin; exact coincidences: offsets "
        "summing to exactly 0.0 (+-ln 2 alternating, +-c pairs, [c, c, -2c], antisymmetric, centred integers), constant, single "
        "non-zero, equal to a design column; weights all 1 / all 2 / with exact zeros / summing to exactly n; Gaussian responses "
        "summing to exactly 0; slow linear convergence (alpha = 10, prior weights 0.01..0.1, tol 1e-13/1e-14, max_iter 5000) placed by "
        "a double-precision replica of the loop in the pass-count bands 130-190, 193-260, 300-600, 1000-4000; "
        "non-trivial = distinct (family, p, weights?, offset?, alpha, tolerance decade, status)")
EXHAUSTIVE = {"quick": False, "thorough": False}
NOT_PROVED = [
    "that the convergence test (relative change of the penalised deviance below the tolerance) implies a small score: "
    "false in general; decided per run by the mpmath score-equation oracle on the returned coefficients",
    "floating-point rounding of the scoring iteration (tied bit-for-bit to the model at Float, not bounded by a theorem)",
    "permutation invariance is proved for gradient, information, mean of y, deviance and lifted to every iterate of the "
    "loop (fitLoop_perm); the pre-loop checks (is_design on permuted rows) and the post-loop stores are not assembled into "
    "one fit_perm theorem; at Float the invariance holds to rounding only (oracle re-runs permuted problems)",
    "the textbook closed forms of the Poisson / Bernoulli / Gamma deviances need ln(y/mu) = ln y - ln mu: with ln abstract "
    "the theorem states the source's formula term by term (devTermF)",
    "observation, not a finding: `penalized_deviance` adds alpha*||beta_1..||_2 (unsquared) although the ridge penalty whose "
    "gradient alpha*beta the scoring step uses is alpha*||beta||^2; it only drives the stopping test and is modelled as it is "
    "(opt-in check C06_SQUARED_PENALTY=1)",
    "d_inv_link is evaluated through the rounded mean: accurate to eps*mu absolute, not relative, as mu -> 1 (oracle bound says so)",
    "the stored deviance and information matrix are ONE SCORING STEP STALE relative to the returned coefficients (glm.rs: coef is "
    "updated before deviance(y, &mu) and compute_ddbeta(x, &dmu, &var, ..) are evaluated with the mu, dmu, var of the pass): "
    "fit_last_pass states exactly this; the clause `deviance at the fitted means` therefore holds up to the last step only - the "
    "oracle allows |grad dev|_(H^-1) * (last-step bound) + tol * pd and observes at most ~36 * tol * deviance (ridge fits, where the "
    "alpha added to the intercept diagonal makes the iteration converge linearly)",
    "about the RETURNED coefficients there is a theorem only for the unpenalised Gaussian family (gaussian_fit_normal_equations: "
    "every pass is an exact weighted least-squares solve); for ridge-Gaussian fits and the five other families the fixed-point "
    "theorems say where the iteration stops moving, not that the returned iterate is there: decided per run by the mpmath oracle. "
    "The ridge fixed point IS the ridge solution with unpenalised intercept (gaussian_normal_equations); apply_ddbeta_penalty adding "
    "alpha to the intercept diagonal changes the convergence rate only",
    "covariance_isInverse (information * covariance = dispersion * I) is under Regular = SqrtOk and LuPivotsNonzero of the "
    "information matrix (the hypotheses of C01 invertMatrix_correct); it is not composed with regular_of_det for the GLM",
    "the floating-point scoring-step theorems (Props/Rounding7, Rounding8; other owner) need p >= 2 (p = 1, intercept only, is "
    "inside the quantifier and is covered by tie + oracle only) and their hypothesis is `the step leaves beta unchanged in "
    "floating point`, which is not the code's deviance-based stopping test",
    "OPEN FINDING glm:weights:unweighted-deviance (known_findings.txt; the oracle emits the key for exactly this signature and the "
    "check prints KNOWN-FINDING): with prior weights the stored deviance is the unweighted sum while the score, the information "
    "and n = round(sum w) are weighted, so dispersion, aic/bic and the standard errors of the Gaussian / QuasiPoisson / Gamma "
    "families are inconsistent with the weights (w = 2 on every row vs the rows duplicated: dispersion and covariance halve, "
    "standard errors shrink by sqrt 2); the dependent accessors are judged against the stored deviance",
    "correctness of the linear solver / inverse used inside the step (C01's theorems; here a hypothesis H * solve H g = g)",
]
TRUSTED = [
    "mpmath (50 digits) for the score equations, the ridge normal equations, deviance, information inverse and predictions",
    "the shared models Cv.solve / Cv.invertMatrix (C01), Cv.matmul (C05), Cv.Vops kernels (C04), Cv.sum8 / Cv.dot8 / Cv.mean",
]
ASSUMPTIONS = ["default cargo features (no blas/lapack)", "Iterator::sum::<f64>() folds from -0.0 (Rust >= 1.83)",
               "the tolerance-based oracle clauses (stationarity, Gaussian ridge solution, deviance, covariance, predictions) run only "
               "inside the quantifier: 1e-15 <= tol <= 1e-4, n > p + 1, condition number of the penalised information <= 1e13 "
               "(information: <= 1e12), finite responses; outside, only the exact clauses (dispersion, aic, bic, se = sqrt diag, "
               "Err/Ok of non-finite results) and the bit-exact tie apply",
               "has_converged at a previous penalised deviance of exactly 0 is false (|x|/0 is inf or NaN in IEEE); the model spells the "
               "case out so that the field instance agrees (a perfect fit therefore ends in Err, as the code does)"]
IMPL_TIMEOUT = 1800
MODEL_TIMEOUT = 1800

FAMILIES = ["gaussian", "bernoulli", "quasipoisson", "poisson", "gamma", "exponential"]
HAS_DISP = {"gaussian": True, "bernoulli": False, "quasipoisson": True, "poisson": False, "gamma": True, "exponential": False}
ALPHAS = [0.0, 0.1, 1.0, 10.0]
TOLS = [1e-5, 1e-6, 1e-8, 1e-10, 1e-12, 1e-14]
EPS = 2.0 ** -52

# ---- oracle constants.  Calibration: max observed ratio (C06_STATS=1) over VERIF_SEED=1..5 quick and one thorough run:
#      score 4.3, gauss 0.01, dev 0.94, cov 0.40, se 0.20, pred 1.3 (eps units), perm 1.15, bic 0.9 (eps units), score(x,y) 0.09
C_SCORE = 500.0      # Newton decrement^2 (g^T H^-1 g, mpmath) at the returned beta <= C_SCORE * tol * penalised deviance + floor
C_ROUND = 1.0e4      # multiplier of the double-precision rounding floors (n * eps * sum |terms|)
C_DEV = 100.0        # |reported deviance - deviance(mu(beta))| <= C_DEV * (|grad dev|_{H^-1} * last-step bound + tol * pd) + floor
C_COV = 1000.0       # covariance / std errors vs mpmath at the returned beta: C_COV * max_i |x_i|_{H^-1} * last-step bound + floor
C_PRED = 1.0e3       # predictions: error <= C_PRED * eps * (1 + sum_j |x_ij beta_j| + |off_i|) (relative for exp / logistic links)
C_PERM = 1000.0      # permuted re-run: coefficients agree to C_PERM * n * eps * cond(H) (+ twice the last-step bound)


# ---------------------------------------------------------------- request construction
def mkline(fam, n, p, x, y, w, off, alpha, tol, maxiter):
    return "glm %s %d %d %s %s %s %s %s %s %d" % (
        fam, n, p, fs(x), fs(y),
        "0" if w is None else "1 " + vec(w),
        "0" if off is None else "1 " + vec(off),
        f2h(alpha), f2h(tol), maxiter)


def _parse_problem(t, k):
    n, p = int(t[k]), int(t[k + 1])
    k += 2
    x = [h2f(s) for s in t[k:k + n * p]]
    k += n * p
    y = [h2f(s) for s in t[k:k + n]]
    k += n
    opt = []
    for _ in range(2):
        if t[k] == "0":
            opt.append(None)
            k += 1
        else:
            m = int(t[k + 1])
            opt.append([h2f(s) for s in t[k + 2:k + 2 + m]])
            k += 2 + m
    return (n, p, x, y, opt[0], opt[1]), k


def parse_line(line):
    """`glm` line, or `glm2` line reduced to the problem the second fit sees (weights / offsets of the first fit persist)"""
    t = line.split()
    fam = t[1]
    if t[0] == "glm2":
        alpha, tol, maxiter = h2f(t[2]), h2f(t[3]), int(t[4])
        (n1, p1, x1, y1, w1, o1), k = _parse_problem(t, 5)
        (n, p, x, y, w, off), k = _parse_problem(t, k)
        return fam, n, p, x, y, (w if w is not None else w1), (off if off is not None else o1), alpha, tol, maxiter
    (n, p, x, y, w, off), k = _parse_problem(t, 2)
    alpha, tol, maxiter = h2f(t[k]), h2f(t[k + 1]), int(t[k + 2])
    return fam, n, p, x, y, w, off, alpha, tol, maxiter


def probtoks(n, p, x, y, w, off):
    return "%d %d %s %s %s %s" % (n, p, fs(x), fs(y), "0" if w is None else "1 " + vec(w), "0" if off is None else "1 " + vec(off))


def mkline2(fam, alpha, tol, maxiter, prob1, prob2):
    return "glm2 %s %s %s %d %s %s" % (fam, f2h(alpha), f2h(tol), maxiter, probtoks(*prob1), probtoks(*prob2))


def sum8(xs):
    """`utils::sum`: the 8-way unrolled association of the source, in doubles"""
    s, k = 0.0, 0
    while k + 8 <= len(xs):
        s += ((((((xs[k] + xs[k + 1]) + xs[k + 2]) + xs[k + 3]) + xs[k + 4]) + xs[k + 5]) + xs[k + 6]) + xs[k + 7]
        k += 8
    for v in xs[k:]:
        s += v
    return s


def round_as_usize(v):
    """`v.round() as usize`: half away from zero, saturating, NaN -> 0"""
    if v != v or v <= 0:
        return 0
    return min(int(math.floor(v + 0.5)) if v < 2.0 ** 52 else int(v), 2 ** 64 - 1)


def parse_vec(toks, k):
    """-> (list | None, next index); `P` = accessor panicked"""
    if toks[k] == "P":
        return None, k + 1
    m = int(toks[k])
    return [h2f(s) for s in toks[k + 1:k + 1 + m]], k + 1 + m


def parse_result(toks):
    r = {}
    r["ok"] = toks[0] == "1"
    r["coef"], k = parse_vec(toks, 1)
    r["dev"] = h2f(toks[k])
    k += 1
    r["disp"] = None if toks[k] == "P" else h2f(toks[k])
    k += 1
    r["cov"], k = parse_vec(toks, k)
    r["se"], k = parse_vec(toks, k)
    r["pred"], k = parse_vec(toks, k)
    r["aic"] = h2f(toks[k])
    r["bic"] = h2f(toks[k + 1])
    r["score"] = None if (len(toks) <= k + 2 or toks[k + 2] == "P") else h2f(toks[k + 2])
    return r


# ---------------------------------------------------------------- generators
def standardise(col):
    n = len(col)
    m = sum(col) / n
    v = sum((c - m) ** 2 for c in col) / n
    s = math.sqrt(v) if v > 0 else 1.0
    return [(c - m) / s for c in col]


def poisson_draw(rng, lam):
    if lam < 30:
        L = math.exp(-lam)
        k, pr = 0, 1.0
        while True:
            pr *= rng.random()
            if pr <= L:
                return float(k)
            k += 1
    return float(max(0, round(lam + math.sqrt(lam) * rng.normal())))


def design_matrix(rng, n, p):
    """first column ones; the others standardised random / polynomial / indicator"""
    cols = [[1.0] * n]
    kinds = []
    t = [rng.uniform(-1, 1) for _ in range(n)]
    deg = 1
    for _ in range(p - 1):
        kind = rng.choice(["random", "random", "poly", "indicator"])
        kinds.append(kind)
        if kind == "random":
            cols.append(standardise([rng.normal() for _ in range(n)]))
        elif kind == "poly":
            cols.append(standardise([ti ** deg for ti in t]))
            deg += 1
        else:
            while True:
                q = rng.uniform(0.3, 0.7)
                c = [1.0 if rng.random() < q else 0.0 for _ in range(n)]
                if 2 <= sum(c) <= n - 2:
                    break
            cols.append(c)
    x = [cols[j][i] for i in range(n) for j in range(p)]
    return x, kinds


def simulate(rng, fam, eta):
    y = []
    for e in eta:
        if fam == "gaussian":
            y.append(e + 0.5 * rng.normal())
        elif fam == "bernoulli":
            y.append(1.0 if rng.random() < 1.0 / (1.0 + math.exp(-e)) else 0.0)
        elif fam in ("poisson", "quasipoisson"):
            y.append(poisson_draw(rng, math.exp(e)))
        elif fam == "gamma":
            k = rng.randint(2, 5)
            y.append(-(math.exp(e) / k) * sum(math.log(max(rng.random(), 1e-300)) for _ in range(k)))
        else:
            y.append(-math.exp(e) * math.log(max(rng.random(), 1e-300)))
    return y


def problem(rng, fam, n, p, has_w, has_off):
    x, kinds = design_matrix(rng, n, p)
    scale = 1.0 if rng.chance(0.5) else 1.0 / math.sqrt(p)
    beta = [rng.uniform(-1.5, 1.5) * scale for _ in range(p)]
    if fam in ("poisson", "quasipoisson", "gamma", "exponential") and rng.chance(0.5):
        beta[0] = rng.uniform(-1.0, 1.2)     # half of the log-link problems with moderate means, half with the full |beta| <= 1.5
    off = [0.3 * rng.normal() for _ in range(n)] if has_off else None
    eta = [sum(x[i * p + j] * beta[j] for j in range(p)) + (off[i] if off else 0.0) for i in range(n)]
    y = simulate(rng, fam, eta)
    if has_w:
        w = [float(rng.randint(1, 3)) for _ in range(n)] if rng.chance(0.5) else [rng.uniform(0.5, 2.0) for _ in range(n)]
    else:
        w = None
    return x, y, w, off, kinds


CONST_WEIGHTS = [2.0, 3.0, 0.5, 0.25, 7.0, 10.0]
WEIGHT_KINDS = ["constant", "piecewise", "all-but-one"]


def structured_weights(rng, n, kind, c):
    """constant c; two or three distinct values in blocks / interleaved; all equal to c except one entry"""
    if kind == "constant":
        return [c] * n
    if kind == "piecewise":
        vals = [c] + [v for v in rng.shuffle(list(CONST_WEIGHTS + [1.0])) if v != c][:rng.randint(1, 2)]
        if rng.chance(0.5):
            cuts = sorted(rng.randint(1, n - 1) for _ in range(len(vals) - 1))
            return [vals[sum(1 for ct in cuts if i >= ct)] for i in range(n)]
        return [vals[i % len(vals)] for i in range(n)]
    w = [c] * n
    w[rng.choice([0, n - 1, rng.randint(0, n - 1)])] = rng.choice([v for v in CONST_WEIGHTS + [1.0] if v != c])
    return w


def permuted(rng, n, p, x, y, w, off):
    perm = rng.shuffle(list(range(n)))
    xp = [x[i * p + j] for i in perm for j in range(p)]
    yp = [y[i] for i in perm]
    wp = [w[i] for i in perm] if w is not None else None
    op = [off[i] for i in perm] if off is not None else None
    return perm, xp, yp, wp, op


def corpus():
    """witnesses of the repaired defects F14 (penalty without alpha) and F15 (unsquared Gaussian deviance), panic classes"""
    L = []
    x = [1.0, -1.5, 1.0, -0.5, 1.0, 0.0, 1.0, 0.5, 1.0, 1.5, 1.0, 2.0]
    y = [0.1, 0.9, 1.6, 2.4, 3.7, 4.1]
    for a in (0.0, 0.1, 1.0, 10.0):
        L.append(mkline("gaussian", 6, 2, x, y, None, None, a, 1e-8, 50))
    L.append(mkline("gaussian", 6, 2, x, y, [1.0, 2.0, 1.0, 3.0, 1.0, 2.0], [0.1, 0.0, -0.1, 0.2, 0.0, 0.3], 10.0, 1e-10, 50))
    # the crate's own test (Wikipedia logistic example)
    hours = [0.50, 0.75, 1.00, 1.25, 1.50, 1.75, 1.75, 2.00, 2.25, 2.50, 2.75, 3.00, 3.25, 3.50, 4.00, 4.25, 4.50, 4.75, 5.00, 5.50]
    passed = [0., 0., 0., 0., 0., 0., 1., 0., 1., 0., 1., 0., 1., 0., 1., 1., 1., 1., 1., 1.]
    xd = [v for h in hours for v in (1.0, h)]
    L.append(mkline("bernoulli", 20, 2, xd, passed, None, None, 0.0, 1e-5, 50))
    L.append(mkline("bernoulli", 20, 2, xd, passed, None, None, 1.0, 1e-10, 50))
    L.append(mkline("bernoulli", 20, 2, xd, passed, None, None, 0.0, 1e-10, 3))   # Err: not converged
    # constant weights c != 1 (seeded change C06d: "uniform weights only rescale the likelihood" drops them): the Fisher
    # information, n = round(sum w) and the ridge balance all depend on c
    cnt = [0.0, 1.0, 0.0, 2.0, 1.0, 3.0, 2.0, 5.0, 4.0, 6.0, 9.0, 8.0]
    xc = [v for t in [-1.5, -1.2, -0.9, -0.6, -0.3, 0.0, 0.3, 0.6, 0.9, 1.2, 1.5, 1.8] for v in (1.0, t)]
    for c in (3.0, 0.25):
        for a in (0.0, 1.0):
            L.append(mkline("poisson", 12, 2, xc, cnt, [c] * 12, None, a, 1e-10, 200))
            L.append(mkline("gaussian", 12, 2, xc, [0.3 * v + 0.1 for v in cnt], [c] * 12, None, a, 1e-10, 200))
    L.append(mkline("bernoulli", 20, 2, xd, passed, [2.0] * 20, None, 0.1, 1e-10, 200))
    L.append(mkline("exponential", 12, 2, xc, [v + 0.5 for v in cnt], [7.0] * 12, None, 0.0, 1e-10, 200))
    # open finding glm:weights:unweighted-deviance: w = 2 on every row vs the same rows duplicated: same coefficients, but
    # deviance 0.1325 vs 0.265, dispersion 0.01325 vs 0.0265, standard errors smaller by sqrt 2
    L.append(mkline("gaussian", 6, 2, x, y, [2.0] * 6, None, 0.0, 1e-10, 50))
    L.append(mkline("gaussian", 12, 2, x + x, y + y, None, None, 0.0, 1e-10, 50))
    # F51 (repaired): the log-link families used to start at eta = mean(y) on the LINK scale; for 354.9 < mean(y) <= 709.78
    # dmu*dmu overflowed, the step was 0 and `fit` reported success at the start value (witness: y in {399, 401} -> coef 400
    # instead of ln 400 = 5.99).  They start at ln(mean(y)) now: a stationary point or Err is demanded by the oracle.
    for m in (300.0, 400.0, 712.0, 1.0e6):
        for mi in (1000, 3):
            L.append(mkline("poisson", 20, 1, [1.0] * 20, [m - 1, m + 1] * 10, None, None, 0.0, 1e-8, mi))
    L.append(mkline("gamma", 20, 1, [1.0] * 20, [399.5, 400.5] * 10, None, None, 0.0, 1e-8, 100))
    # all-zero counts: ln(mean(y)) = -inf, the fit must end in Err (never Ok)
    L.append(mkline("poisson", 20, 1, [1.0] * 20, [0.0] * 20, None, None, 0.0, 1e-8, 50))
    L.append(mkline("quasipoisson", 20, 2, [v for t in range(20) for v in (1.0, t / 10.0 - 1.0)], [0.0] * 20, None, None, 0.1, 1e-8, 50))
    # seeded change C06s (covariance cache cleared by the setters but not by `fit`): fit -> read -> fit (no setter) -> read
    xa = [v for t in [-1.5, -1.2, -0.9, -0.6, -0.3, 0.0, 0.3, 0.6, 0.9, 1.2, 1.5, 1.8] for v in (1.0, t)]
    ya = [0.0, 1.0, 0.0, 2.0, 1.0, 3.0, 2.0, 5.0, 4.0, 6.0, 9.0, 8.0]
    yb = [3.0, 1.0, 4.0, 1.0, 5.0, 9.0, 2.0, 6.0, 5.0, 3.0, 5.0, 8.0]
    for fam_, y1, y2 in (("poisson", ya, yb), ("gaussian", [0.3 * v + 0.1 for v in ya], yb)):
        steps = [("F", 1, 0.0, 1e-10, 200, (12, 2, xa, y1, None, None)), ("R",),
                 ("F", 0, 0.0, 1e-10, 200, (12, 2, xa, y2, None, None)), ("R",),
                 ("F", 0, 0.0, 1e-10, 200, (20, 1, [1.0] * 20, [2.0, 4.0] * 10, None, None)), ("R",)]
        L.append(h2_line(fam_, steps))
    # seeded change C06v (offsets dropped when their float sum is exactly 0): Poisson n = 40, p = 2, exposures alternating
    # 2 : 1/2 (offsets +ln 2 / -ln 2, sum exactly 0.0) and correlated with the covariate; without / with ridge penalty
    xo = [v for i in range(40) for v in (1.0, (1.0 if i % 2 == 0 else -1.0) * (0.6 + 0.02 * (i % 7)) + 0.05 * ((i * 7) % 11 - 5))]
    oo = [LN2 if i % 2 == 0 else -LN2 for i in range(40)]
    yo = [float(v) for v in [7, 1, 9, 2, 6, 1, 8, 0, 10, 2, 7, 1, 5, 2, 9, 1, 8, 3, 6, 1, 11, 1, 7, 2, 9, 0, 6, 1, 8, 2, 10, 1, 7, 1, 6, 2, 9, 1, 8, 1]]
    L.append(mkline("poisson", 40, 2, xo, yo, None, oo, 0.0, 1e-10, 200))
    L.append(mkline("poisson", 40, 2, xo, yo, None, oo, 0.1, 1e-10, 200))
    # seeded change C06y (tolerance relaxed to sqrt(tol) after 192 passes): rare-event Bernoulli, n = 40, p = 3, prior weights in
    # [0.02, 0.05], alpha = 10, tol 1e-13: the intercept converges linearly (alpha on its Hessian diagonal, none in its score),
    # ~1050 passes on the unchanged tree
    cs1 = standardise([math.sin(1.3 * i + 0.4) for i in range(40)])
    cs2 = standardise([((i * 7) % 11) / 5.0 - 1.0 for i in range(40)])
    xs = [v for i in range(40) for v in (1.0, cs1[i], cs2[i])]
    ys = [1.0 if i in (3, 9, 14, 22, 27, 31, 36) else 0.0 for i in range(40)]
    ws = [0.02 + 0.03 * ((i * 13) % 17) / 16.0 for i in range(40)]
    L.append(mkline("bernoulli", 40, 3, xs, ys, ws, None, 10.0, 1e-13, 5000))
    # panic classes
    L.append(mkline("gaussian", 6, 2, [2.0] + x[1:], y, None, None, 0.0, 1e-8, 50))          # not a design matrix
    L.append(mkline("gaussian", 6, 2, x, y, [1.0, 2.0], None, 0.0, 1e-8, 50))                 # wrong number of weights
    L.append(mkline("gaussian", 6, 2, x, y, None, [1.0], 0.0, 1e-8, 50))                      # wrong number of offsets
    L.append("glm gaussian 0 0 0 0 %s %s 5" % (f2h(0.0), f2h(1e-5)))                          # n = 0
    L.append(mkline("gaussian", 2, 3, [1.0, 0.5, 0.25, 1.0, -0.5, 0.25], [1.0, 2.0], None, None, 0.0, 1e-8, 5))  # n < p
    L.append(mkline("gaussian", 4, 3, [1.0, 1.0, 2.0, 1.0, 2.0, 4.0, 1.0, 3.0, 6.0, 1.0, 4.0, 8.0], [1.0, 2.0, 2.5, 4.0], None, None, 0.0, 1e-8, 5))  # collinear
    L.append(mkline("poisson", 6, 2, x, [0.0, 1.0, 0.0, 2.0, 3.0, 5.0], None, None, 0.0, 1e-8, 0))   # max_iter = 0
    return L


def gen(rng, tier):
    lines = []
    cover = {"family": {}, "status_hint": {}, "perm_pairs": 0, "weights": 0, "offsets": 0, "alpha": {}, "kinds": {}}
    nprob = 150 if tier == "quick" else 2400
    nmax = 120 if tier == "quick" else 500
    for k in range(nprob):
        fam = FAMILIES[k % 6]
        p = rng.randint(1, 6)
        n = rng.randint(max(20, 8 * p), nmax) if rng.chance(0.7) else rng.randint(20, 40)
        if fam == "bernoulli":
            n = max(n, 15 * p)   # keep away from separable samples (the MLE must exist)
        has_w, has_off = rng.chance(0.5), rng.chance(0.5)
        alpha = rng.choice(ALPHAS)
        tol = rng.choice(TOLS)
        maxiter = rng.choice([200, 200, 100, 50, 50, 25, 10, 5, 2, 1])
        x, y, w, off, kinds = problem(rng, fam, n, p, has_w, has_off)
        lines.append(mkline(fam, n, p, x, y, w, off, alpha, tol, maxiter))
        cover["family"][fam] = cover["family"].get(fam, 0) + 1
        cover["weights"] += has_w
        cover["offsets"] += has_off
        cover["alpha"][str(alpha)] = cover["alpha"].get(str(alpha), 0) + 1
        for kd in kinds:
            cover["kinds"][kd] = cover["kinds"].get(kd, 0) + 1
        if rng.chance(1 / 3):
            perm, xp, yp, wp, op = permuted(rng, n, p, x, y, w, off)
            lines.append("# perm " + " ".join(map(str, perm)))
            lines.append(mkline(fam, n, p, xp, yp, wp, op, alpha, tol, maxiter))
            cover["perm_pairs"] += 1
    # ---- structured weights: constant c != 1 (dyadic and non-dyadic), piecewise constant, all equal except one.
    #      Full grid family x alpha x offset for each structure; tolerances / budgets chosen so that the fits succeed and
    #      the oracle (weighted information, weighted ridge score, n = round(sum w)) decides them on the implementation alone.
    cover["weight_structure"] = {}
    reps = 1 if tier == "quick" else 4
    k = 0
    for _ in range(reps):
        for kind in WEIGHT_KINDS:
            for fam in FAMILIES:
                for alpha in ALPHAS:
                    for has_off in (False, True):
                        pp = rng.randint(1, 3) if kind == "constant" else rng.randint(1, 4)
                        n = rng.randint(max(20, 15 * pp), 60)
                        x, y, _, off, kinds = problem(rng, fam, n, pp, False, has_off)
                        w = structured_weights(rng, n, kind, CONST_WEIGHTS[k % len(CONST_WEIGHTS)])
                        k += 1
                        lines.append(mkline(fam, n, pp, x, y, w, off, alpha, rng.choice([1e-8, 1e-10, 1e-12]), 200))
                        cover["weight_structure"][kind] = cover["weight_structure"].get(kind, 0) + 1
    generic_strata(rng.fork("generic"), tier, lines, cover)
    family_strata(rng.fork("families"), tier, lines, cover)
    setcoef_strata(rng.fork("setcoef"), tier, lines, cover)
    history_strata(rng.fork("history"), tier, lines, cover)
    read_history_strata(rng.fork("read-history"), tier, lines, cover)
    coincidence_strata(rng.fork("coincidence"), tier, lines, cover)
    slow_strata(rng.fork("slow"), tier, lines, cover)
    return lines, cover


SPECIAL_ALPHAS = [-0.0, 0.5, 1.0 / 3.0, 2.0, 3.0, 1e-300, -1.0, 0.1 * (1 + EPS)]
SPECIAL_TOLS = [0.0, 1.0, 0.5, 1e-16, 1e-300, float("inf"), 1e-5 * (1 + EPS), 1e-14]
BOUNDARY_N = {"quick": [23, 24, 25, 31, 32, 33, 63, 64, 65, 127, 128, 129],
              "thorough": [23, 24, 25, 31, 32, 33, 39, 40, 41, 63, 64, 65, 127, 128, 129, 255, 256, 257, 499, 500]}


def raw_design(rng, n, p):
    """intercept + NON-centred columns (0/1 indicators, raw powers of t in [0, 2]): the intercept is coupled to every slope"""
    t = [rng.uniform(0.0, 2.0) for _ in range(n)]
    cols = [[1.0] * n]
    deg = 1
    for j in range(p - 1):
        if j % 2 == 0:
            while True:
                c = [1.0 if rng.random() < 0.4 else 0.0 for _ in range(n)]
                if 2 <= sum(c) <= n - 2:
                    break
            cols.append(c)
        else:
            cols.append([ti ** deg for ti in t])
            deg += 1
    return [cols[j][i] for i in range(n) for j in range(p)]


def respond(rng, fam, n, p, x, off, b0=None, bscale=0.7):
    beta = [rng.uniform(-1.5, 1.5) * bscale for _ in range(p)]
    beta[0] = rng.uniform(-1.0, 1.2) if b0 is None else b0
    eta = [sum(x[i * p + j] * beta[j] for j in range(p)) + (off[i] if off else 0.0) for i in range(n)]
    return simulate(rng, fam, eta)


def generic_strata(rng, tier, lines, cover):
    """tools/GENERIC_STRATA.md: exact special values, size boundaries, threshold bands, object reuse, extreme scale."""
    g = cover.setdefault("generic", {})

    def add(tag, line):
        lines.append(line)
        g[tag] = g.get(tag, 0) + 1

    def small(fam, p=None, nlo=20, nhi=48, has_w=None, has_off=None):
        pp = p or rng.randint(1, 3)
        n = rng.randint(max(nlo, 15 * pp if fam == "bernoulli" else nlo), max(nhi, 15 * pp + 5))
        x, y, w, off, _ = problem(rng, fam, n, pp, rng.chance(0.5) if has_w is None else has_w,
                                  rng.chance(0.5) if has_off is None else has_off)
        return n, pp, x, y, w, off

    reps = 1 if tier == "quick" else 3
    for rep in range(reps):
        # (2) size boundaries of n (8-way unrolled kernels: residues mod 8, powers of two and neighbours)
        for k, n in enumerate(BOUNDARY_N[tier]):
            fam = FAMILIES[(k + rep) % 6]
            pp = rng.randint(1, min(6, max(1, n // 15))) if fam == "bernoulli" else rng.randint(1, 6)
            x, y, w, off, _ = problem(rng, fam, n, pp, rng.chance(0.5), rng.chance(0.5))
            add("size-boundary", mkline(fam, n, pp, x, y, w, off, rng.choice(ALPHAS), rng.choice(TOLS), 100))
        # (1) special values of alpha and of the tolerance (outside the quantifier: tie + exact checks; inside: all checks)
        for k, a in enumerate(SPECIAL_ALPHAS):
            fam = FAMILIES[(k + rep) % 6]
            n, pp, x, y, w, off = small(fam)
            add("special-alpha", mkline(fam, n, pp, x, y, w, off, a, rng.choice([1e-8, 1e-10]), 100))
        for k, tl in enumerate(SPECIAL_TOLS):
            fam = FAMILIES[(k + 3 + rep) % 6]
            n, pp, x, y, w, off = small(fam)
            add("special-tol", mkline(fam, n, pp, x, y, w, off, rng.choice(ALPHAS), tl, 60))
        # (1)/(3) fractional weights: sum with fractional part exactly .5 / .75 / .25 (dyadic, exact), sums that are an integer in
        # exact arithmetic but not in doubles (0.1, 1.1, 0.7 ...), and a last weight tuned so that the sum lands next to k or k + .5
        for k, fam in enumerate(FAMILIES + ["gaussian", "gamma", "quasipoisson"]):
            n, pp, x, y, _, off = small(fam, has_w=False)
            kind = (k + rep) % 4
            if kind == 0:
                w = [rng.choice([0.25, 0.5, 0.75, 1.25, 1.5, 2.5]) for _ in range(n)]
                w[-1] += rng.choice([0.0, 0.25, 0.5])
            elif kind == 1:
                w = [rng.choice([0.1, 1.1, 0.7, 0.3, 2.3])] * n
            elif kind == 2:
                w = [rng.uniform(0.5, 2.0) for _ in range(n - 1)]
                target = math.floor(sum(w)) + 1 + rng.choice([0.0, 0.5])
                last = target - sum8(w)
                w.append(last * (1 + rng.choice([-2, -1, 0, 1, 2]) * EPS))
            else:
                w = [rng.uniform(0.0, 1.0) for _ in range(n)]
                w[rng.randint(0, n - 1)] = 0.0        # an observation with weight exactly zero
            add("fractional-weights", mkline(fam, n, pp, x, y, w, off, rng.choice([0.0, 0.0, 1.0]), 1e-10, 200))
        # (4) every family x kinds of offsets through fit, predict and score (Gaussian with offsets included)
        for fam in FAMILIES:
            for okind in ("random", "zeros", "negzeros", "integers"):
                pp = rng.randint(1, 3)
                n = rng.randint(max(20, 15 * pp), 50)
                x, _ = design_matrix(rng, n, pp)
                off = {"random": [0.5 * rng.normal() for _ in range(n)], "zeros": [0.0] * n, "negzeros": [-0.0] * n,
                       "integers": [float(rng.randint(-2, 2)) for _ in range(n)]}[okind]
                y = respond(rng, fam, n, pp, x, off)
                w = [rng.uniform(0.5, 2.0) for _ in range(n)] if rng.chance(0.3) else None
                add("offsets-" + okind, mkline(fam, n, pp, x, y, w, off, rng.choice(ALPHAS), 1e-10, 200))
        # (1) exact-zero / integer / half-integer responses
        for k in range(8):
            fam = ["gaussian", "poisson", "quasipoisson", "gaussian"][k % 4]
            pp = rng.randint(1, 3)
            n = rng.randint(20, 40)
            x, _ = design_matrix(rng, n, pp)
            if fam == "gaussian":
                y = [rng.choice([0.0, -0.0, 0.5, 1.0, -1.0, 2.0, 1.5, 1.0 / 3.0, 3.0]) for _ in range(n)]
            else:
                y = respond(rng, fam, n, pp, x, None, b0=rng.uniform(-1.5, -0.3))   # mostly zero counts
                if sum(y) == 0:
                    y[0] = 1.0
            add("exact-zero-responses", mkline(fam, n, pp, x, y, None, None, rng.choice(ALPHAS), 1e-8, 200))
        # (3) large and tiny means for the log-link families (F51: the start value is ln(mean(y)); before the repair
        # 354.9 < mean(y) <= 709.78 gave a false success and mean(y) > 709.78 NaN): counts in the hundreds .. 1e6 must converge
        # to a stationary point (or Err on a short budget); all-zero counts (ln 0 = -inf) must end in Err
        for k, m in enumerate([300.0, 354.0, 356.0, 600.0, 709.0, 709.78, 712.0, 1575.0, 1.0e4, 1.0e6, 0.0, 0.05]):
            fam = ["poisson", "quasipoisson", "gamma", "exponential"][(k + rep) % 4]
            pp = rng.randint(1, 2)
            n = rng.randint(20, 30)
            x, _ = design_matrix(rng, n, pp)
            if m == 0.0:
                fam = ["poisson", "quasipoisson"][k % 2]
                y = [0.0] * n
            elif m < 1:
                fam = ["poisson", "quasipoisson"][k % 2]
                y = [0.0] * n
                y[rng.randint(0, n - 1)] = 1.0
            else:
                y = [float(max(1, round(m * (1 + 0.05 * rng.normal())))) for _ in range(n)]
            off = [math.log(1000.0) + 0.1 * rng.normal() for _ in range(n)] if (m >= 1000 and rng.chance(0.5)) else None
            add("large-or-zero-mean", mkline(fam, n, pp, x, y, None, off, rng.choice([0.0, 0.1]), 1e-8, rng.choice([5, 50, 200])))
        # (3) iteration budget: max_iter = 0..9 on the same problem brackets the pass at which convergence is declared
        for fam in FAMILIES:
            n, pp, x, y, w, off = small(fam, nhi=30)
            a, tl = rng.choice(ALPHAS), rng.choice([1e-5, 1e-8, 1e-12])
            for mi in range(0, 10):
                add("max-iter-sweep", mkline(fam, n, pp, x, y, w, off, a, tl, mi))
        # (2) n = p - 1, p, p + 1, p + 2 (saturated / underdetermined; dispersion divides by n - p)
        for fam in FAMILIES:
            for pp in (1, 2, 3):
                for n in (max(1, pp - 1), pp, pp + 1, pp + 2):
                    x, _ = design_matrix(rng, max(n, 4), pp)
                    x = x[:n * pp]
                    y = respond(rng, fam, n, pp, x, None)
                    if fam in ("gamma", "exponential"):
                        y = [max(v, 0.01) for v in y]
                    add("n-near-p", mkline(fam, n, pp, x, y, None, None, rng.choice([0.0, 1.0]), 1e-8, 30))
        # (1) non-centred indicator / raw polynomial columns: the intercept is coupled to the slopes (ridge: the intercept
        # differs from mean(y)); every family x alpha > 0
        for fam in FAMILIES:
            for a in (0.1, 1.0, 10.0):
                pp = rng.randint(2, 4)
                n = rng.randint(max(24, 15 * pp), 70)
                x = raw_design(rng, n, pp)
                off = [0.3 * rng.normal() for _ in range(n)] if rng.chance(0.4) else None
                y = respond(rng, fam, n, pp, x, off, bscale=0.4)
                w = [rng.uniform(0.5, 2.0) for _ in range(n)] if rng.chance(0.4) else None
                add("coupled-intercept", mkline(fam, n, pp, x, y, w, off, a, rng.choice([1e-8, 1e-12]), 200))
        # (3) is_design: |x_i0 - 1| > EPSILON rejects; entries within one EPSILON of 1 are accepted and used as they are
        for d in (EPS, -EPS, EPS / 2, 2 * EPS, -2 * EPS, 1.5 * EPS):
            fam = rng.choice(FAMILIES)
            n, pp, x, y, w, off = small(fam, nhi=30)
            x = list(x)
            x[rng.randint(0, n - 1) * pp] = 1.0 + d
            add("design-threshold", mkline(fam, n, pp, x, y, w, off, 0.0, 1e-8, 100))
        # (4) one GLM object fitted twice: nothing of the first fit may leak into the second, except the weights / offsets that
        # were set and not set again.  Each `glm2` line is followed by the direct fit of the problem the second call sees.
        for k in range(12):
            fam = FAMILIES[(k + rep) % 6]
            a, tl = rng.choice(ALPHAS), rng.choice([1e-6, 1e-10])
            n1, p1, x1, y1, w1, o1 = small(fam, has_w=(k % 3 == 0), has_off=(k % 4 == 1))
            mode = k % 4
            if mode == 0:      # same size, fresh weights / offsets set again (or the old ones kept when none are given)
                n2, p2 = n1, rng.randint(1, 3)
                n2 = max(n2, 15 * p2) if fam == "bernoulli" else n2
                if n2 != n1:
                    n2, p2 = n1, 1
                x2, y2, w2, o2, _ = problem(rng, fam, n2, p2, rng.chance(0.5), rng.chance(0.5))
            elif mode == 1:    # long then short
                n2, p2, x2, y2, w2, o2 = small(fam, nlo=20, nhi=24, has_w=w1 is not None, has_off=o1 is not None)
            elif mode == 2:    # short then long, different column count
                n2, p2, x2, y2, w2, o2 = small(fam, p=rng.randint(2, 3), nlo=50, nhi=60, has_w=w1 is not None, has_off=o1 is not None)
            else:              # the first fit fails to converge (budget 1..2 passes); the second inherits nothing
                n2, p2, x2, y2, w2, o2 = small(fam, has_w=w1 is not None, has_off=o1 is not None)
            mi = rng.choice([1, 2]) if mode == 3 else 100
            add("refit", mkline2(fam, a, tl, mi, (n1, p1, x1, y1, w1, o1), (n2, p2, x2, y2, w2, o2)))
            if n2 == n1 or ((w2 is not None or w1 is None) and (o2 is not None or o1 is None)):
                lines.append("# same")
                lines.append(mkline(fam, n2, p2, x2, y2, w2 if w2 is not None else w1, o2 if o2 is not None else o1, a, tl, mi))
        # (5) extreme scale: the unpenalised Gaussian fit is exactly equivariant under y, offset -> 2^k y, 2^k offset
        for k in (1, -1, 52, -52, 100, -100, 200, -200):
            pp = rng.randint(1, 4)
            n = rng.randint(20, 40)
            x, y, w, off, _ = problem(rng, "gaussian", n, pp, rng.chance(0.5), rng.chance(0.5))
            tl, mi = rng.choice([1e-6, 1e-10]), rng.choice([2, 3, 50])
            add("scale", mkline("gaussian", n, pp, x, y, w, off, 0.0, tl, mi))
            lines.append("# scale %d" % k)
            lines.append(mkline("gaussian", n, pp, x, [math.ldexp(v, k) for v in y], w,
                                None if off is None else [math.ldexp(v, k) for v in off], 0.0, tl, mi))


# ---------------------------------------------------------------- direct calls of the ExponentialFamily methods, set_coef
ETA_EDGE = [0.0, -0.0, 1e-300, -1e-300, 5e-324, 1e-16, -1e-16, 0.5, -0.5, 1.0, -1.0, 2.0, 36.0, 36.7, 36.8, 37.0, 40.0, -36.0, -37.0,
            -40.0, 700.0, 709.0, 709.78, 709.79, 710.0, 745.0, 746.0, -700.0, -709.0, -709.78, -709.79, -710.0, -745.0, -745.2,
            -746.0, 1e3, -1e3, 1e308, -1e308, float("inf"), float("-inf"), float("nan")]
MU_EDGE = [0.0, -0.0, 5e-324, 1e-300, 1e-17, 0.25, 0.5, 1.0 - 2.0 ** -53, 1.0, 1.0 + 2.0 ** -52, 2.0, 3.0, 1e154, 1.4e154, 1e155, 1e308,
           -0.5, -1.0, float("inf"), float("nan")]
KLENS = [1, 2, 7, 8, 9, 15, 16, 17, 33]


def famline(fam, meth, *args):
    toks = []
    for a in args:
        toks.append(vec(a) if isinstance(a, list) else f2h(a))
    return ("fam %s %s %s" % (fam, meth, " ".join(toks))).strip()


def py_inv_link(fam, e):
    """the source's formula in doubles (same libm)"""
    try:
        if fam == "gaussian":
            return e
        if fam == "bernoulli":
            try:
                ex = math.exp(-e)
            except OverflowError:
                ex = float("inf")
            return 1.0 / (1.0 + ex)
        return math.exp(e)
    except OverflowError:
        return float("inf")


def domain_pair(rng, fam, edge):
    """(y, mu) inside the family's domain; `edge`: close to the boundary of the domain"""
    if fam == "gaussian":
        return (rng.choice([0.0, -0.0, 1.0, -2.5, 1e-300, 1e150]) if edge else 3 * rng.normal(),
                rng.choice([0.0, 1.0, -1e150, 2.5]) if edge else 3 * rng.normal())
    if fam == "bernoulli":
        y = float(rng.randint(0, 1))
        mu = rng.choice([1e-300, 5e-324, 1e-17, 1.0 - 2.0 ** -53, 1.0 - 1e-12, 0.5]) if edge else rng.uniform(0.001, 0.999)
        return y, mu
    if fam in ("poisson", "quasipoisson"):
        y = rng.choice([0.0, 0.0, 1.0, 2.0, 1e6, 1e15]) if edge else float(rng.randint(0, 30))
        mu = rng.choice([1e-300, 5e-324, 1e-10, 1.0, 1e6, 1e300]) if edge else rng.loguniform(0.01, 100.0)
        return y, mu
    y = rng.choice([1e-300, 5e-324, 1.0, 1e150, 1e-10]) if edge else rng.loguniform(0.01, 100.0)
    mu = rng.choice([1e-300, 1e-10, 1.0, 1e150, 1e300]) if edge else rng.loguniform(0.01, 100.0)
    return y, mu


def family_strata(rng, tier, lines, cover):
    g = cover.setdefault("family_methods", {})

    def add(tag, line):
        lines.append(line)
        g[tag] = g.get(tag, 0) + 1

    nrand = 6 if tier == "quick" else 40
    for fam in FAMILIES:
        add("has_dispersion", famline(fam, "has_dispersion"))
        # inv_link / d_inv_link: the boundary list once (chunked over several kernel lengths), then random points
        edge = list(ETA_EDGE)
        k = 0
        while edge:
            m = KLENS[k % len(KLENS)]
            k += 1
            eta, edge = edge[:m], edge[m:]
            add("inv_link", famline(fam, "inv_link", eta))
            add("d_inv_link", famline(fam, "d_inv_link", eta, [py_inv_link(fam, e) for e in eta]))
        for r in range(nrand):
            m = rng.choice(KLENS + [40, 64])
            sc = rng.choice([1.0, 1.0, 5.0, 30.0, 300.0])
            eta = [sc * rng.normal() for _ in range(m)]
            add("inv_link", famline(fam, "inv_link", eta))
            add("d_inv_link", famline(fam, "d_inv_link", eta, [py_inv_link(fam, e) for e in eta]))
        # d_inv_link with an arbitrary mean vector, also of a different length (the Gaussian arm sizes by eta, the others by mu)
        for r in range(3):
            add("d_inv_link", famline(fam, "d_inv_link", [rng.normal() for _ in range(rng.randint(0, 9))],
                                      [rng.choice(MU_EDGE) if rng.chance(0.5) else rng.uniform(0, 1) for _ in range(rng.randint(0, 9))]))
        # variance
        edge = list(MU_EDGE)
        k = 0
        while edge:
            m = KLENS[(k + 2) % len(KLENS)]
            k += 1
            mu, edge = edge[:m], edge[m:]
            add("variance", famline(fam, "variance", mu))
        for r in range(nrand):
            m = rng.choice(KLENS + [40])
            mu = [rng.uniform(0, 1) if fam == "bernoulli" else rng.loguniform(1e-6, 1e6) for _ in range(m)]
            add("variance", famline(fam, "variance", mu))
        add("variance", famline(fam, "variance", []))
        # deviance / penalized_deviance: inside the domain, at its boundary, outside (tie only), mismatched lengths (panic)
        for r in range(2 * nrand):
            m = rng.choice(KLENS + [40])
            edge_p = rng.choice([0.0, 0.0, 0.3])
            pairs = [domain_pair(rng, fam, rng.chance(edge_p)) for _ in range(m)]
            y, mu = [a for a, _ in pairs], [b for _, b in pairs]
            if r % 7 == 6:
                y[rng.randint(0, m - 1)] = rng.choice([float("nan"), -1.0, 0.5, 0.0, 2.0])     # possibly outside the domain
            if r % 2 == 0:
                add("deviance", famline(fam, "deviance", y, mu))
            else:
                pc = rng.choice([0, 1, 2, 3, 9])
                coef = [rng.choice([0.0, -0.0, 1.0, -1.5, 3.0, 1e-200, 1e200]) if rng.chance(0.3) else 1.5 * rng.normal() for _ in range(pc)]
                a = rng.choice([0.0, -0.0, 0.1, 0.5, 1.0, 10.0, -1.0, 1e-300, 1e300])
                add("penalized_deviance", famline(fam, "penalized_deviance", y, mu, a, coef))
        add("deviance", famline(fam, "deviance", [1.0, 2.0], [1.0]))
        add("deviance", famline(fam, "deviance", [], []))
        add("penalized_deviance", famline(fam, "penalized_deviance", [1.0], [1.0], 1.0, []))
        # IRLS start values
        for r in range(nrand // 2 + 2):
            m = rng.choice([0, 1, 2, 3, 7, 8, 9, 16, 33])
            y = [float(rng.randint(0, 1)) if fam == "bernoulli" and rng.chance(0.7) else rng.choice([0.0, -0.0, 0.5, 0.25, 1.0, 1e-300, 1e308, float("nan"), rng.normal()])
                 for _ in range(m)]
            add("iwr", famline(fam, "iwr", y))
            add("iww", famline(fam, "iww", y))


def setcoef_line(fam, mode, alpha, tol, mi, c, prob1, prob2=None):
    return "setcoef %s %d %s %s %d %s %s%s" % (fam, mode, f2h(alpha), f2h(tol), mi, vec(c), probtoks(*prob1),
                                              "" if prob2 is None else " " + probtoks(*prob2))


def setcoef_strata(rng, tier, lines, cover):
    """GLM::set_coef at the four positions of the object's life cycle.  mode 0: `glm` line of the same fit, `# setcoef`, then
    fit -> set_coef -> accessors (everything but coef / predict / score must be what the fit stored);  mode 1: fresh object;
    modes 2, 3: set_coef before a (re)fit must not influence it (`# same` + the direct fit)."""
    g = cover.setdefault("setcoef", {})
    reps = 2 if tier == "quick" else 8
    for rep in range(reps):
        for fam in FAMILIES:
            pp = rng.randint(1, 3)
            n = rng.randint(max(20, 15 * pp), 40)
            x, y, w, off, _ = problem(rng, fam, n, pp, rng.chance(0.4), rng.chance(0.5))
            a, tl, mi = rng.choice(ALPHAS), rng.choice([1e-6, 1e-10]), rng.choice([100, 100, 2])
            prob = (n, pp, x, y, w, off)
            good = [rng.choice([0.0, -0.0, 1.0, 0.5, -1.5]) if rng.chance(0.3) else rng.uniform(-1.5, 1.5) for _ in range(pp)]
            for c in (good, good[:pp - 1], good + [0.25], good + good, []):
                lines.append(mkline(fam, n, pp, x, y, w, off, a, tl, mi))
                lines.append("# setcoef")
                lines.append(setcoef_line(fam, 0, a, tl, mi, c, prob))
                g["after-fit"] = g.get("after-fit", 0) + 1
            lines.append(setcoef_line(fam, 1, a, tl, mi, good, prob))
            g["unfitted"] = g.get("unfitted", 0) + 1
            # before a refit / a first fit: no influence
            n2 = rng.randint(20, 30)
            p2 = rng.randint(1, 2)
            x2, y2, w2, o2, _ = problem(rng, fam, max(n2, 15 * p2), p2, rng.chance(0.5), rng.chance(0.5))
            n2 = len(y2)
            x1, y1, _, _, _ = problem(rng, fam, n, pp, False, False)
            lines.append(setcoef_line(fam, 2, a, tl, mi, good, (n, pp, x1, y1, None, None), (n2, p2, x2, y2, w2, o2)))
            lines.append("# same")
            lines.append(mkline(fam, n2, p2, x2, y2, w2, o2, a, tl, mi))
            lines.append(setcoef_line(fam, 3, a, tl, mi, [1e3] * pp, prob))
            lines.append("# same")
            lines.append(mkline(fam, n, pp, x, y, w, off, a, tl, mi))
            g["before-fit"] = g.get("before-fit", 0) + 2


# ---------------------------------------------------------------- object histories: several fits on ONE GLM object
def hist_line(fam, steps):
    """steps: (alpha, tol, maxiter, coef-or-None, (n, p, x, y, w, off))"""
    return "hist %s %d %s" % (fam, len(steps), " ".join(
        "%s %s %d %s %s" % (f2h(a), f2h(tl), mi, "0" if c is None else "1 " + vec(c), probtoks(*pr)) for a, tl, mi, c, pr in steps))


def parse_hist(line):
    t = line.split()
    fam, k = t[1], int(t[2])
    pos = 3
    steps = []
    for _ in range(k):
        a, tl, mi = h2f(t[pos]), h2f(t[pos + 1]), int(t[pos + 2])
        pos += 3
        if t[pos] == "0":
            c = None
            pos += 1
        else:
            m = int(t[pos + 1])
            c = [h2f(v) for v in t[pos + 2:pos + 2 + m]]
            pos += 2 + m
        pr, pos = _parse_problem(t, pos)
        steps.append((a, tl, mi, c, pr))
    return fam, steps


def hist_twins(fam, steps):
    """the `glm` request a FRESH object configured like the history's object at each fit would see
    (weights / offsets persist until they are set again; everything else is overwritten by `fit`)"""
    out = []
    w0 = o0 = None
    for a, tl, mi, c, (n, p, x, y, w, off) in steps:
        w0 = w if w is not None else w0
        o0 = off if off is not None else o0
        out.append(mkline(fam, n, p, x, y, w0, o0, a, tl, mi))
    return out


def history_strata(rng, tier, lines, cover):
    g = cover.setdefault("history", {})

    def emit(tag, fam, steps, twins=True):
        lines.append(hist_line(fam, steps))
        g[tag] = g.get(tag, 0) + 1
        g["fits"] = g.get("fits", 0) + len(steps)
        if twins:
            tw = hist_twins(fam, steps)
            lines.append("# twins %d" % len(tw))
            lines.extend(tw)

    def prob(fam, p=None, n=None, has_w=False, has_off=False):
        pp = p or rng.randint(1, 3)
        nn = n or rng.randint(max(20, 15 * pp), 45)
        x, y, w, off, _ = problem(rng, fam, nn, pp, has_w, has_off)
        return (nn, pp, x, y, w, off)

    reps = 1 if tier == "quick" else 4
    for rep in range(reps):
        for fam in FAMILIES:
            good = (rng.choice(ALPHAS), rng.choice([1e-6, 1e-8, 1e-10]), 200, None)
            short = lambda: (rng.choice([0.0, 0.1]), 1e-10, rng.choice([1, 2, 3] if fam != "gaussian" else [1, 2]), None)
            never = lambda: (rng.choice([0.0, 1.0]), 0.0, rng.choice([5, 20]), None)
            A, B = prob(fam), prob(fam)
            # (a) converge, then a fit that cannot converge within its budget: same data / new data, short budget / tolerance 0
            emit("converge-then-fail", fam, [good + (A,), short() + (A,)])
            emit("converge-then-fail", fam, [good + (A,), short() + (B,)])
            emit("converge-then-fail", fam, [good + (A,), never() + (B,), good + (A,)])
            # (b) fail first, then converge
            emit("fail-then-converge", fam, [short() + (A,), good + (A,)])
            emit("fail-then-converge", fam, [never() + (A,), good + (B,), short() + (B,)])
            # (c) converge on A, then on B (same shape)
            B2 = prob(fam, p=A[1], n=A[0])
            emit("A-then-B", fam, [good + (A,), good + (B2,)])
            # (d) a different number of observations / predictors between the fits (long -> short, short -> long, p changes)
            C = prob(fam, p=A[1] % 3 + 1, n=rng.randint(50, 60))
            emit("shape-change", fam, [good + (A,), good + (C,), short() + (A,)])
            emit("shape-change", fam, [good + (C,), short() + (A,), good + (C,)])
            # weights set for the first fit, data of another length without new weights: the stale weights make `fit` panic
            Aw = prob(fam, has_w=True)
            Cn = prob(fam, n=Aw[0] + 3)
            emit("stale-weights-panic", fam, [good + (Aw,), good + (Cn,)], twins=False)
            # (e) setters between the fits: penalty, tolerance, weights, offsets, coefficients
            n0, p0 = A[0], A[1]
            Aw2 = (n0, p0, A[2], A[3], [rng.uniform(0.5, 2.0) for _ in range(n0)], None)
            Ao = (n0, p0, A[2], A[3], None, [0.3 * rng.normal() for _ in range(n0)])
            Awo = (n0, p0, A[2], A[3], [float(rng.randint(1, 3)) for _ in range(n0)], [0.2 * rng.normal() for _ in range(n0)])
            emit("setters", fam, [(0.0, 1e-8, 200, None, A), (10.0, 1e-8, 200, None, A), (0.1, 1e-12, 200, None, A), (0.1, 1e-12, 2, None, A)])
            emit("setters", fam, [(0.0, 1e-8, 200, None, A), (0.0, 1e-8, 200, None, Aw2), (0.0, 1e-8, 200, None, Ao), (1.0, 1e-8, 3 if fam != "gaussian" else 2, None, A)])
            emit("setters", fam, [(1.0, 1e-10, 200, [1e3] * p0, Awo), (1.0, 1e-10, 1, [0.0] * p0, A), (1.0, 1e-10, 200, [-5.0] * (p0 + 1), Awo)])


# ---------------------------------------------------------------- object histories with READS between the fits (op hist2)
TOL0 = 1e-5      # GLM::new


def h2_line(fam, steps):
    """steps: ("F", mode, alpha, tol, maxiter, problem) | ("R",) | ("SP", a) | ("ST", t) | ("SW", w) | ("SO", off) | ("SC", c)"""
    toks = []
    for st in steps:
        if st[0] == "F":
            toks.append("F %d %s %s %d %s" % (st[1], f2h(st[2]), f2h(st[3]), st[4], probtoks(*st[5])))
        elif st[0] == "R":
            toks.append("R")
        elif st[0] in ("SP", "ST"):
            toks.append("%s %s" % (st[0], f2h(st[1])))
        else:
            toks.append("%s %s" % (st[0], vec(st[1])))
    return "hist2 %s %d %s" % (fam, len(steps), " ".join(toks))


def parse_h2(line):
    t = line.split()
    fam, k = t[1], int(t[2])
    pos, steps = 3, []
    for _ in range(k):
        kd = t[pos]
        pos += 1
        if kd == "F":
            mode, a, tl, mi = int(t[pos]), h2f(t[pos + 1]), h2f(t[pos + 2]), int(t[pos + 3])
            pr, pos = _parse_problem(t, pos + 4)
            steps.append(("F", mode, a, tl, mi, pr))
        elif kd == "R":
            steps.append(("R",))
        elif kd in ("SP", "ST"):
            steps.append((kd, h2f(t[pos])))
            pos += 1
        else:
            m = int(t[pos])
            steps.append((kd, [h2f(v) for v in t[pos + 1:pos + 1 + m]]))
            pos += 1 + m
    return fam, steps


def h2_twins(fam, steps):
    """for every R: the `glm` request of a FRESH object fitted with the configuration the last fit saw, or None when a
    set_offset / set_coef since that fit changed what predict / coef read (those reads are decided by the tie only)"""
    alpha, tol, w, off = 0.0, TOL0, None, None
    last, dirty, out = None, False, []
    for st in steps:
        if st[0] == "F":
            _, mode, a, tl, mi, (n, p, x, y, pw, po) = st
            if mode != 0:
                alpha, tol = a, tl
            w = pw if pw is not None else w
            off = po if po is not None else off
            last, dirty = mkline(fam, n, p, x, y, w, off, alpha, tol, mi), False
        elif st[0] == "R":
            out.append(None if (dirty or last is None) else last)
        elif st[0] == "SP":
            alpha = st[1]
        elif st[0] == "ST":
            tol = st[1]
        elif st[0] == "SW":
            w = st[1]
        elif st[0] == "SO":
            off, dirty = st[1], True
        elif st[0] == "SC":
            dirty = True
    return out


def read_history_lines(rng, fam, quick=True):
    """the histories of one family: reads (R) interleaved with fits on ONE object, with and without setters in between"""
    def prob(p=None, n=None, has_w=False, has_off=False):
        pp = p or rng.randint(1, 3)
        nn = n or rng.randint(max(20, 15 * pp), 45)
        x, y, w, off, _ = problem(rng, fam, nn, pp, has_w, has_off)
        return (nn, pp, x, y, w, off)

    A = prob()
    B = prob(p=A[1], n=A[0])                       # same shape, other data
    C = prob(p=A[1] % 3 + 1, n=rng.randint(50, 60))   # other n and p
    Aw = (A[0], A[1], A[2], A[3], [rng.uniform(0.5, 2.0) for _ in range(A[0])], None)
    a0, t0 = rng.choice(ALPHAS), rng.choice([1e-8, 1e-10])
    F = lambda mode, pr, a=a0, tl=t0, mi=200: ("F", mode, a, tl, mi, pr)
    R = ("R",)
    out = [
        ("fit-read-fit-read", [F(1, A), R, F(0, B), R]),                                  # no setter between the fits
        ("fit-read-fit-read", [F(0, A), R, F(0, B), R, F(0, A), R]),                      # default alpha / tolerance throughout
        ("shape-change-reads", [F(1, A), R, F(0, C), R, F(0, A), R]),
        ("pub-field-assignment", [F(1, A), R, F(2, B, rng.choice(ALPHAS), 1e-9), R, F(2, Aw, 1.0, 1e-8), R]),
        ("read-set-read", [F(1, A), R, ("SP", 10.0), R, ("ST", 1e-3), R, ("SW", [2.0] * A[0]), R,
                           ("SO", [0.25] * A[0]), R, ("SC", [0.5] * A[1]), R]),
        ("fit-fit-read", [F(1, A), F(0, B), R, R]),
        ("converge-read-fail-read", [F(1, A), R, F(2, B, a0, 0.0, 3), R, F(2, A, a0, t0, 200), R]),
        ("setter-then-fit", [F(1, A), R, ("SP", 1.0), F(0, B), R, ("SW", [float(rng.randint(1, 3)) for _ in range(B[0])]), F(0, B), R]),
    ]
    return out


def read_history_strata(rng, tier, lines, cover):
    g = cover.setdefault("read_history", {})
    reps = 1 if tier == "quick" else 4
    for rep in range(reps):
        for fam in FAMILIES:
            for tag, steps in read_history_lines(rng, fam):
                lines.append(h2_line(fam, steps))
                tw = h2_twins(fam, steps)
                lines.append("# twins2 %d" % len(tw))
                lines.extend(l if l is not None else "# none" for l in tw)
                g[tag] = g.get(tag, 0) + 1
                g["reads"] = g.get("reads", 0) + len(tw)
                g["fits"] = g.get("fits", 0) + sum(1 for st in steps if st[0] == "F")


# ---------------------------------------------------------------- exact coincidences in offsets / weights / responses
LN2 = math.log(2.0)
OFFSET_KINDS = ["pm-ln2-alternating", "pm-pairs-dyadic", "c-c-minus2c", "antisymmetric", "centred-integers", "constant", "single",
                "design-column"]
WEIGHT_KINDS2 = ["all-one", "all-two", "exact-zeros", "sum-exactly-n"]


def coincidence_offsets(rng, n, kind, xcol):
    """offsets with an exact coincidence; the first five kinds sum to exactly 0.0 in doubles (any summation order for the dyadic
    ones, the source's 8-way order for the alternating one) without being zero"""
    if kind == "pm-ln2-alternating":          # balanced exposures 2 : 1/2, alternating, n even
        return [LN2 if i % 2 == 0 else -LN2 for i in range(n)]
    if kind == "pm-pairs-dyadic":
        c = rng.choice([0.5, 0.25, 1.5, 2.0])
        o = [c] * (n // 2) + [-c] * (n // 2) + [0.0] * (n % 2)
        return rng.shuffle(o)
    if kind == "c-c-minus2c":
        c = rng.choice([0.5, 0.25, 0.125])
        o = ([c, c, -2 * c] * (n // 3 + 1))[:n - n % 3] + [0.0] * (n % 3)
        return o
    if kind == "antisymmetric":
        h = [rng.randint(-8, 8) / 8.0 for _ in range(n // 2)]
        return h + ([0.0] if n % 2 else []) + [-v for v in reversed(h)]
    if kind == "centred-integers":
        o = [float(rng.randint(-2, 2)) for _ in range(n - 1)]
        o.append(-sum(o))
        return o
    if kind == "constant":
        return [rng.choice([LN2, 0.5, -1.0, 3.0])] * n
    if kind == "single":
        o = [0.0] * n
        o[rng.randint(0, n - 1)] = rng.choice([1.0, -2.0, LN2])
        return o
    return list(xcol)


def coincidence_weights(rng, n, kind):
    if kind == "all-one":
        return [1.0] * n
    if kind == "all-two":
        return [2.0] * n
    if kind == "exact-zeros":
        w = [rng.choice([1.0, 2.0, 0.5]) for _ in range(n)]
        for k in rng.shuffle(list(range(n)))[:max(1, n // 8)]:
            w[k] = 0.0
        return w
    w = [0.5] * (n // 2) + [1.5] * (n // 2) + [1.0] * (n % 2)      # sums to exactly n
    return rng.shuffle(w)


def coincidence_problem(rng, fam, n, okind, wkind):
    """intercept + one column; the offsets are CORRELATED with the column (for the alternating kind the column follows the sign of
    the offset), so that ignoring them moves the fitted slope far beyond any tolerance"""
    p = 2
    if okind == "pm-ln2-alternating":
        col = standardise([(1.0 if i % 2 == 0 else -1.0) + 0.5 * rng.normal() for i in range(n)])
    else:
        col = standardise([rng.normal() for _ in range(n)])
    x = [v for i in range(n) for v in (1.0, col[i])]
    off = coincidence_offsets(rng, n, okind, col) if okind else None
    if okind in ("pm-pairs-dyadic", "antisymmetric", "centred-integers", "c-c-minus2c") and off is not None:
        # make the column follow the offsets as well
        col = standardise([0.8 * o + 0.6 * rng.normal() for o in off])
        x = [v for i in range(n) for v in (1.0, col[i])]
    w = coincidence_weights(rng, n, wkind) if wkind else None
    b0 = rng.uniform(0.3, 1.2) if fam not in ("gaussian", "bernoulli") else rng.uniform(-0.5, 0.5)
    y = respond(rng, fam, n, p, x, off, b0=b0, bscale=0.5)
    if fam == "gaussian" and rng.chance(0.3):
        h = [rng.randint(-16, 16) / 8.0 for _ in range(n // 2)]
        y = h + ([0.0] if n % 2 else []) + [-v for v in reversed(h)]          # responses summing to exactly 0: mean(y) = 0
    return (n, p, x, y, w, off)


def coincidence_strata(rng, tier, lines, cover):
    g = cover.setdefault("coincidence", {})
    reps = 1 if tier == "quick" else 4
    for rep in range(reps):
        for fam in FAMILIES:
            nmin = 30 if fam == "bernoulli" else 24
            for okind in OFFSET_KINDS:
                n = 2 * rng.randint(nmin // 2, 30)
                pr = coincidence_problem(rng, fam, n, okind, None)
                a = rng.choice([0.0, 0.0, 0.1, 1.0])
                lines.append(mkline(fam, *pr, a, 1e-10, 200))
                g["offsets:" + okind] = g.get("offsets:" + okind, 0) + 1
            for wkind in WEIGHT_KINDS2:
                n = 2 * rng.randint(nmin // 2, 30)
                pr = coincidence_problem(rng, fam, n, rng.choice([None, "pm-pairs-dyadic", "constant"]), wkind)
                lines.append(mkline(fam, *pr, rng.choice([0.0, 0.1]), 1e-10, 200))
                g["weights:" + wkind] = g.get("weights:" + wkind, 0) + 1
            # through the object histories: offsets that sum to 0 set once and kept for a second fit, then replaced by zeros
            n = 2 * rng.randint(nmin // 2, 24)
            A = coincidence_problem(rng, fam, n, rng.choice(OFFSET_KINDS[:5]), None)
            B0 = coincidence_problem(rng, fam, n, None, None)
            C = coincidence_problem(rng, fam, n, "constant", rng.choice(WEIGHT_KINDS2))
            steps = [("F", 1, 0.0, 1e-10, 200, A), ("R",), ("F", 0, 0.0, 1e-10, 200, B0), ("R",),
                     ("SO", [0.0] * n), ("F", 0, 0.0, 1e-10, 200, B0), ("R",), ("F", 0, 0.0, 1e-10, 200, C), ("R",)]
            lines.append(h2_line(fam, steps))
            tw = h2_twins(fam, steps)
            lines.append("# twins2 %d" % len(tw))
            lines.extend(l if l is not None else "# none" for l in tw)
            g["history"] = g.get("history", 0) + 1


# ---------------------------------------------------------------- slow (linear) convergence: hundreds to thousands of passes
def py_fit_iters(fam, n, p, x, y, w, off, alpha, tol, maxiter):
    """plain-double replica of the scoring loop (same formulas, naive sums, Gaussian elimination): used ONLY to count the passes
    a request needs, for the coverage histogram and to place requests in iteration bands; -> (passes, converged)"""
    w = w or [1.0] * n
    off = off or [0.0] * n
    m = sum(y) / n
    beta = [m if fam in ("gaussian", "bernoulli") else math.log(m)] + [0.0] * (p - 1)
    pd_prev, it = float("inf"), 0
    while True:
        eta = [sum(x[i * p + j] * beta[j] for j in range(p)) + off[i] for i in range(n)]
        mu = [py_inv_link(fam, e) for e in eta]
        if fam == "bernoulli":
            dmu = [u * (1 - u) for u in mu]; var = dmu
        elif fam == "gaussian":
            dmu = [1.0] * n; var = dmu
        else:
            dmu = mu; var = mu if fam in ("poisson", "quasipoisson") else [u * u for u in mu]
        try:
            g = [-sum(x[i * p + j] * w[i] * (y[i] - mu[i]) * (dmu[i] / var[i]) for i in range(n)) for j in range(p)]
            H = [[sum(x[i * p + a] * x[i * p + b] * w[i] * dmu[i] * dmu[i] / var[i] for i in range(n)) for b in range(p)] for a in range(p)]
            if alpha > 0:
                for j in range(1, p):
                    g[j] += alpha * beta[j]
                for j in range(p):
                    H[j][j] += alpha
            A = [row[:] + [g[k]] for k, row in enumerate(H)]
            for c in range(p):
                piv = max(range(c, p), key=lambda r: abs(A[r][c]))
                A[c], A[piv] = A[piv], A[c]
                for r in range(c + 1, p):
                    f = A[r][c] / A[c][c]
                    for k in range(c, p + 1):
                        A[r][k] -= f * A[c][k]
            sol = [0.0] * p
            for c in reversed(range(p)):
                sol[c] = (A[c][p] - sum(A[c][k] * sol[k] for k in range(c + 1, p))) / A[c][c]
            beta = [b - d for b, d in zip(beta, sol)]
            if fam == "bernoulli":
                dev = -2 * sum(yy * math.log(u) + (1 - yy) * math.log(1 - u) for yy, u in zip(y, mu))
            elif fam in ("poisson", "quasipoisson"):
                dev = 2 * sum(u - yy - yy * math.log(u) + (yy * math.log(yy) if yy > 0 else 0.0) for yy, u in zip(y, mu))
            elif fam == "gaussian":
                dev = sum((yy - u) ** 2 for yy, u in zip(y, mu))
            else:
                dev = 2 * sum((yy - u) / u - math.log(yy / u) for yy, u in zip(y, mu))
        except (ValueError, ZeroDivisionError, OverflowError):
            return it + 1, False
        pd = dev + alpha * math.sqrt(sum(b * b for b in beta[1:]))
        conv = (not math.isinf(pd_prev)) and pd_prev != 0 and abs(pd - pd_prev) / pd_prev < tol
        it += 1
        if conv or it >= maxiter:
            return it, conv
        pd_prev = pd


ITER_BANDS = [(130, 190), (193, 260), (300, 600), (1000, 4000)]


def iter_band(k):
    for lo, hi in ITER_BANDS:
        if lo <= k <= hi:
            return "%d-%d" % (lo, hi)
    return "<130" if k < 130 else "other"


def slow_problem(rng, fam, band):
    """alpha = 10, small prior weights: the intercept (alpha on its Hessian diagonal, no penalty in its score) converges linearly at
    rate ~ alpha / (alpha + S), S = sum of working weights; S is tuned so that the pass count lands in `band`"""
    lo, hi = band
    for attempt in range(40):
        p = rng.randint(2, 3)
        n = rng.randint(max(20, 15 * p if fam == "bernoulli" else 20), 60)
        x, _ = design_matrix(rng, n, p)
        b0 = {"bernoulli": rng.uniform(-1.5, -0.8), "poisson": rng.uniform(-1.0, -0.2), "gamma": rng.uniform(-0.5, 0.5)}[fam]
        y = respond(rng, fam, n, p, x, None, b0=b0, bscale=0.5)
        if fam == "bernoulli" and not (2 <= sum(y) <= n - 2):
            continue
        if fam == "poisson" and sum(y) < 3:
            continue
        tol = rng.choice([1e-13, 1e-14])
        target = math.sqrt(lo * hi)                    # passes ~ 15 / -log10(rate)
        rate = 10 ** (-15.0 / target)
        S = 10.0 * (1 / rate - 1)
        per = {"bernoulli": 0.18, "poisson": max(sum(y) / n, 0.05), "gamma": 1.0}[fam]
        base = S / (n * per)
        for scale in (1.0, 0.7, 1.4, 0.5, 2.0, 0.35, 2.8):
            w = [base * scale * rng.uniform(0.8, 1.25) for _ in range(n)]
            k, conv = py_fit_iters(fam, n, p, x, y, w, None, 10.0, tol, 5000)
            if conv and lo <= k <= hi:
                return (n, p, x, y, w, None), tol, k
    return None


def slow_strata(rng, tier, lines, cover):
    g = cover.setdefault("slow_convergence", {"iteration_bands": {}})
    plan = [("bernoulli", 1), ("poisson", 2), ("bernoulli", 3)] if tier == "quick" else \
        [(f, b) for b in range(4) for f in ("bernoulli", "poisson", "gamma")] + [("bernoulli", 1), ("poisson", 3), ("bernoulli", 2)]
    for fam, b in plan:
        r = slow_problem(rng, fam, ITER_BANDS[b])
        if r is None:
            g["not-placed"] = g.get("not-placed", 0) + 1
            continue
        pr, tol, k = r
        lines.append(mkline(fam, *pr, 10.0, tol, 5000))
        g["iteration_bands"][iter_band(k)] = g["iteration_bands"].get(iter_band(k), 0) + 1
        g[fam] = g.get(fam, 0) + 1


def nontrivial(line, reply):
    if line.startswith("hist2 ") and not reply.startswith("#"):
        t = line.split()
        kinds = "".join(x[0] if x in ("F", "R") else ("s" if x in ("SP", "ST", "SW", "SO", "SC") else "") for x in t[3:])
        return "hist2 %s %s %s" % (t[1], kinds[:24], " ".join(r.split()[0] for r in reply[1:].split(";")) if reply.startswith("=") else reply[:7])
    if line.startswith("hist ") and not reply.startswith("#"):
        t = line.split()
        return "hist %s k=%s %s" % (t[1], t[2], " ".join(r.split()[0] for r in reply[1:].split(";")) if reply.startswith("=") else reply[:7])
    if line.startswith("fam ") and not reply.startswith("#"):
        t = line.split()
        return "fam %s %s len=%s %s" % (t[1], t[2], t[3] if len(t) > 3 else "-", reply[:1])
    if line.startswith("setcoef ") and not reply.startswith("#"):
        t = line.split()
        return "setcoef %s mode=%s ncoef=%s %s" % (t[1], t[2], t[6], reply[:3])
    if not line.startswith("glm") or not reply.startswith("="):
        return None
    try:
        fam, n, p, _, _, w, off, alpha, tol, _ = parse_line(line)
    except Exception:
        return None
    dec = round(-math.log10(tol)) if (tol > 0 and math.isfinite(tol)) else -1
    return "%s %s p=%d w=%d off=%d a=%g tol=%d st=%s" % (line.split()[0], fam, p, w is not None, off is not None, alpha,
                                                         dec, reply.split()[1])


# ---------------------------------------------------------------- oracle (mpmath)
def _mp():
    import mpmath
    mpmath.mp.dps = 50
    return mpmath


def fam_funcs(mp, fam):
    """(inv_link, d_inv_link(mu, eta), variance(mu), unit deviance(y, mu)) — textbook definitions"""
    one = mp.mpf(1)
    if fam == "gaussian":
        return (lambda e: e, lambda m, e: one, lambda m: one, lambda y, m: (y - m) ** 2)
    if fam == "bernoulli":
        def d(y, m):
            s = mp.mpf(0)
            if y != 0:
                s += y * mp.log(y / m)
            if y != 1:
                s += (1 - y) * mp.log((1 - y) / (1 - m))
            return 2 * s
        return (lambda e: one / (one + mp.exp(-e)), lambda m, e: m * (1 - m), lambda m: m * (1 - m), d)
    if fam in ("poisson", "quasipoisson"):
        def d(y, m):
            return 2 * ((y * mp.log(y / m) if y != 0 else 0) - (y - m))
        return (mp.exp, lambda m, e: m, lambda m: m, d)
    def d(y, m):
        return 2 * ((y - m) / m - mp.log(y / m))
    return (mp.exp, lambda m, e: m, lambda m: m * m, d)


def analyse(mp, fam, n, p, x, y, w, off, alpha, beta):
    """score, penalised information, deviance, predictions, eta scale at beta — all in mpmath"""
    inv, dinv, varf, udev = fam_funcs(mp, fam)
    X = [mp.mpf(v) for v in x]
    B = [mp.mpf(v) for v in beta]
    W = [mp.mpf(v) for v in w] if w is not None else [mp.mpf(1)] * n
    O = [mp.mpf(v) for v in off] if off is not None else [mp.mpf(0)] * n
    Y = [mp.mpf(v) for v in y]
    eta = [sum(X[i * p + j] * B[j] for j in range(p)) + O[i] for i in range(n)]
    eta_abs = [sum(abs(X[i * p + j] * B[j]) for j in range(p)) + abs(O[i]) for i in range(n)]
    mu = [inv(e) for e in eta]
    dmu = [dinv(m, e) for m, e in zip(mu, eta)]
    var = [varf(m) for m in mu]
    # penalised score: sum_i x_ij w_i (y_i - mu_i) dmu_i / var_i  -  alpha beta_j [j >= 1]
    score = []
    score_abs = []
    for j in range(p):
        terms = [X[i * p + j] * W[i] * (Y[i] - mu[i]) * dmu[i] / var[i] for i in range(n)]
        pen = alpha * B[j] if (j >= 1 and alpha > 0) else 0
        score.append(sum(terms) - pen)
        score_abs.append(sum(abs(t) for t in terms) + abs(pen))
    info = mp.matrix(p, p)
    for a in range(p):
        for b in range(p):
            info[a, b] = sum(X[i * p + a] * X[i * p + b] * W[i] * dmu[i] ** 2 / var[i] for i in range(n))
    H = info.copy()
    if alpha > 0:
        for a in range(p):
            H[a, a] += alpha     # the source adds alpha to every diagonal entry, the intercept's included
    dev = sum(udev(yy, m) for yy, m in zip(Y, mu))
    return {"eta": eta, "eta_abs": eta_abs, "mu": mu, "score": score, "score_abs": score_abs, "info": info, "H": H, "dev": dev}


def cond_est(mp, M, p):
    try:
        Mi = M ** -1
    except ZeroDivisionError:
        return mp.inf, None
    nrm = lambda A: max(sum(abs(A[i, j]) for j in range(p)) for i in range(p))
    return nrm(M) * nrm(Mi), Mi


STATS = {"score": 0.0, "dev": 0.0, "cov": 0.0, "se": 0.0, "pred": 0.0, "gauss": 0.0, "perm": 0.0, "bic": 0.0, "scoreacc": 0.0, "dev_stale_over_tol": 0.0}
WHERE = {}


def stat(name, value, key):
    if value > STATS[name]:
        STATS[name] = value
        WHERE[name] = key



def check_fit(mp, i, line, rep, fails):
    fam, n, p, x, y, w, off, alpha, tol, maxiter = parse_line(line)
    key0 = "%s:n%d:p%d:w%d:o%d:a%g:t%g:m%d" % (fam, n, p, w is not None, off is not None, alpha, tol, maxiter)
    st, toks = parse_reply(rep)
    if st != "ok":
        return None
    r = parse_result(toks)
    beta = r["coef"]
    if beta is None or len(beta) != p:
        fails.append(Failure(i, "shape:" + key0, "coef has %s entries, expected %d" % (None if beta is None else len(beta), p)))
        return None
    finite = all(math.isfinite(b) for b in beta) and math.isfinite(r["dev"])
    tiny = mp.mpf(10) ** -300
    # ---- 4. exact accessor formulas (whatever the status): dispersion = deviance / (n_w - p) with n_w = round(sum8(w)) for the
    #         dispersion families, 1 otherwise;  aic = dev + 2p;  bic = dev + p ln n_w;  se = sqrt(diag(cov))
    nw = round_as_usize(sum8(w)) if w is not None else n
    if math.isfinite(r["dev"]):
        if HAS_DISP[fam]:
            if nw < p:
                if r["disp"] is not None:
                    fails.append(Failure(i, "dispersion:" + key0, "n - p underflows but dispersion returned a value"))
            elif nw != p:
                exp = r["dev"] / float(nw - p)
                if r["disp"] is None or f2h(r["disp"]) != f2h(exp):
                    fails.append(Failure(i, "dispersion:" + key0, "dispersion %r, expected deviance/(n-p) = %r with n = round(sum w) = %d" % (r["disp"], exp, nw), f2h(exp)))
        elif r["disp"] is None or r["disp"] != 1.0:
            fails.append(Failure(i, "dispersion:" + key0, "dispersion %r, expected 1 for a family without dispersion" % (r["disp"],)))
        aic = r["dev"] + 2.0 * float(p)
        if f2h(aic) != f2h(r["aic"]):
            fails.append(Failure(i, "aic:" + key0, "aic %r, expected deviance + 2p = %r" % (r["aic"], aic), f2h(aic)))
        if nw > 0:
            bic = mp.mpf(r["dev"]) + p * mp.log(nw)
            berr = abs(mp.mpf(r["bic"]) - bic)
            bsc = EPS * (abs(mp.mpf(r["dev"])) + p * abs(mp.log(nw))) + tiny
            stat("bic", float(berr / bsc), key0)
            if berr > 4 * bsc:
                fails.append(Failure(i, "bic:" + key0, "bic %r, expected deviance + p ln n = %r (n = %d)" % (r["bic"], float(bic), nw), f2h(float(bic))))
    if r["cov"] is not None and r["se"] is not None and len(r["cov"]) == p * p and len(r["se"]) == p:
        for a in range(p):
            v = r["cov"][a * p + a]
            e = math.sqrt(v) if v >= 0 else float("nan")
            if f2h(e) != f2h(r["se"][a]) and not (e == 0 and r["se"][a] == 0):
                fails.append(Failure(i, "stderr:" + key0, "standard error %d is %r, expected sqrt of the covariance diagonal %r" % (a, r["se"][a], e), f2h(e)))
                break
    if not r["ok"]:
        return r      # an error was reported: nothing more is promised about the stored values
    if not finite:
        fails.append(Failure(i, "nonfinite-success:" + key0, "fit reported success with non-finite coefficients/deviance"))
        return r
    if not (1e-15 <= tol <= 1e-4) or n <= p + 1 or not all(math.isfinite(v) for v in y):
        return r      # outside the quantifier (tolerance 1e-5..1e-14, more observations than parameters): exact checks only
    A = analyse(mp, fam, n, p, x, y, w, off, alpha, beta)
    kH, Hi = cond_est(mp, A["H"], p)
    r["_kH"], r["_tol"], r["_n"] = float(kH), tol, n
    if Hi is None or float(kH) > 1e13:
        return r      # numerically singular information at the returned point: outside the quantifier (the MLE must exist)
    aHi = lambda u, v: sum(abs(Hi[a, b]) * abs(u[a]) * abs(v[b]) for a in range(p) for b in range(p))
    qHi = lambda u: sum(Hi[a, b] * u[a] * u[b] for a in range(p) for b in range(p))
    # the quantity the convergence test of the source bounds: tol * (deviance + alpha * |beta_1..|)
    pd = abs(A["dev"]) + alpha * mp.sqrt(sum(mp.mpf(b) ** 2 for b in beta[1:]))
    T = tol * pd
    # rounding floor of an n-term double-precision score sum, in the H^-1 (Newton decrement) metric
    gfl = [n * EPS * sa for sa in A["score_abs"]]
    F = aHi(gfl, gfl)
    # ---- 1. stationarity.  lam2 = g^T H^-1 g is the Newton decrement^2: the decrease of the penalised deviance that one
    #         further exact scoring step would achieve; "score equations hold within the convergence tolerance" is
    #         lam2 <= C * tol * penalised deviance (+ rounding floor).
    lam2 = qHi(A["score"])
    bound = C_SCORE * T + C_ROUND ** 2 * F
    stat("score", float(lam2 / (T + F + tiny)), key0)
    if lam2 > bound:
        fails.append(Failure(i, "not-stationary:" + key0,
                             "fit reported success but the returned coefficients are not a stationary point of the penalised "
                             "likelihood: Newton decrement^2 %.3e > %.3e (tol %.0e, penalised deviance %.3e); score %s" % (
                                 float(lam2), float(bound), tol, float(pd), [float(s) for s in A["score"]])))
    # ---- 2. Gaussian: weighted ridge least squares solved independently, compared in the energy norm of the normal matrix
    if fam == "gaussian":
        W = [mp.mpf(v) for v in w] if w is not None else [mp.mpf(1)] * n
        O = [mp.mpf(v) for v in off] if off is not None else [mp.mpf(0)] * n
        rhs = mp.matrix([sum(mp.mpf(x[ii * p + j]) * W[ii] * (mp.mpf(y[ii]) - O[ii]) for ii in range(n)) for j in range(p)])
        M = A["info"].copy()
        if alpha > 0:
            for a in range(1, p):
                M[a, a] += alpha     # ridge: intercept unpenalised
        try:
            bstar = mp.lu_solve(M, rhs)
        except ZeroDivisionError:
            bstar = None
        if bstar is not None:
            d = [mp.mpf(beta[j]) - bstar[j] for j in range(p)]
            e2 = sum(M[a, b] * d[a] * d[b] for a in range(p) for b in range(p))
            stat("gauss", float(e2 / (T + F + tiny)), key0)
            if e2 > bound:
                fails.append(Failure(i, "gaussian-ridge:" + key0,
                                     "Gaussian fit differs from the weighted ridge least-squares solution: energy-norm error^2 %.3e > %.3e; got %s, expected %s" % (
                                         float(e2), float(bound), beta, [float(b) for b in bstar])))
    # ---- 3. deviance at the fitted means.  The source evaluates it one scoring step before the returned beta; that step has
    #         H-norm^2 <= ~T, so the deviance moves by at most |grad dev|_{H^-1} sqrt(T) + T (grad dev != 0 at the optimum when
    #         alpha > 0 or weights != 1).
    inv, dinv, varf, udev = fam_funcs(mp, fam)
    Xm = [mp.mpf(v) for v in x]
    gd = [-2 * sum(Xm[ii * p + j] * (mp.mpf(y[ii]) - A["mu"][ii]) * dinv(A["mu"][ii], A["eta"][ii]) / varf(A["mu"][ii]) for ii in range(n)) for j in range(p)]
    gdn = mp.sqrt(abs(qHi(gd)))
    step = mp.sqrt(C_SCORE * T + C_ROUND ** 2 * F)          # what check 1 allows for the last step
    derr = abs(mp.mpf(r["dev"]) - A["dev"])
    dev_abs = sum(abs(udev(mp.mpf(yy), m)) + abs(mp.mpf(yy)) + abs(m) for yy, m in zip(y, A["mu"]))
    dfloor = n * EPS * dev_abs * (1 + max(A["eta_abs"]))
    dbound = C_DEV * (gdn * step + T) + C_ROUND * dfloor
    stat("dev", float(derr / (gdn * mp.sqrt(T + F) + T + dfloor + tiny)), key0)
    stat("dev_stale_over_tol", float((derr - C_ROUND * dfloor) / (tol * (abs(A["dev"]) + tiny))) if derr > C_ROUND * dfloor else 0.0, key0)
    wdev = None
    if w is not None and any(v != 1.0 for v in w):
        # with prior weights the consistent deviance is sum_i w_i d_i (open finding glm:weights:unweighted-deviance: the source
        # stores the unweighted sum).  Clause 3 accepts EITHER, so that a repair of the crate is not reported as a violation.
        wdev = sum(mp.mpf(wi) * udev(mp.mpf(yy), m) for wi, yy, m in zip(w, y, A["mu"]))
        wscale = max(abs(mp.mpf(wi)) for wi in w) + 1
    if derr > dbound and not (wdev is not None and abs(mp.mpf(r["dev"]) - wdev) <= wscale * dbound):
        fails.append(Failure(i, "deviance:" + key0, "reported deviance %r differs from the family deviance at the fitted means %r by %.3e > %.3e" % (
            r["dev"], float(A["dev"]), float(derr), float(dbound)), f2h(float(A["dev"]))))
    # ---- 3b. OPEN FINDING glm:weights:unweighted-deviance (known_findings.txt): with prior weights the deviance that is
    #          consistent with the weighted score equations, the weighted information and n = round(sum w) is
    #          sum_i w_i d(y_i, mu_i); the source stores the unweighted sum.  The key is emitted ONLY for that signature:
    #          weights present and not all 1, the stored deviance IS the unweighted family deviance (clause 3 above passed)
    #          and differs from the weighted one.  Any other deviance discrepancy is the `deviance:` failure of clause 3.
    #          The dependent accessors (dispersion, aic, bic, covariance, standard errors) are judged against the stored
    #          deviance / reported dispersion (clauses 4, 5), so the same root cause raises no second failure.
    if derr <= dbound and wdev is not None:
        if abs(mp.mpf(r["dev"]) - wdev) > wscale * dbound + mp.mpf("1e-6") * abs(wdev):
            fails.append(Failure(i, "glm:weights:unweighted-deviance",
                                 "with weights the stored deviance %r is the unweighted sum; the weighted deviance sum w_i d_i is %r "
                                 "(dispersion = deviance/(sum w - p), aic/bic and the standard errors inherit the mismatch) [%s]" % (
                                     r["dev"], float(wdev), key0), f2h(float(wdev))))
    # ---- 5. covariance = dispersion * inverse(Fisher information), standard errors = sqrt(diag).  The stored information is
    #         evaluated one scoring step before the returned beta; the working weights move by a relative
    #         exp(|x_i . step|) - 1 <= ~ max_i |x_i|_{H^-1} * sqrt(T)  (zero for the Gaussian family).
    kI, Ii = cond_est(mp, A["info"], p)
    if Ii is not None and r["disp"] is not None and math.isfinite(r["disp"]) and float(kI) < 1e12:
        xh = max(mp.sqrt(abs(qHi([Xm[ii * p + j] for j in range(p)]))) for ii in range(n))
        stale = xh * step
        rel = C_COV * float(stale) + C_ROUND * n * EPS * float(kI)
        unit = float(xh * mp.sqrt(T + F)) + n * EPS * float(kI)
        if r["cov"] is None or len(r["cov"]) != p * p:
            fails.append(Failure(i, "covariance:" + key0, "covariance accessor panicked or has the wrong size on an invertible information matrix"))
        else:
            worst = 0.0
            for a in range(p):
                for b in range(p):
                    e = mp.mpf(r["disp"]) * Ii[a, b]
                    sc = abs(mp.mpf(r["disp"])) * mp.sqrt(abs(Ii[a, a] * Ii[b, b])) + tiny
                    worst = max(worst, float(abs(mp.mpf(r["cov"][a * p + b]) - e) / sc))
            stat("cov", worst / unit, key0)
            if worst > rel:
                fails.append(Failure(i, "covariance:" + key0, "covariance differs from dispersion * inverse information: scaled error %.3e > %.3e" % (worst, rel)))
        if r["se"] is None or len(r["se"]) != p:
            fails.append(Failure(i, "stderr:" + key0, "standard errors accessor panicked or has the wrong size"))
        elif r["cov"] is not None and len(r["cov"]) == p * p:
            worst = 0.0
            for a in range(p):
                e = mp.sqrt(abs(mp.mpf(r["disp"]) * Ii[a, a]))
                worst = max(worst, float(abs(mp.mpf(r["se"][a]) - e) / (e + tiny)))
            stat("se", worst / unit, key0)
            if worst > rel:
                fails.append(Failure(i, "stderr:" + key0, "standard errors differ from sqrt(diag(dispersion * inverse information)): rel err %.3e > %.3e" % (worst, rel)))
    # ---- 6. predictions = inv_link(x beta + offset)
    if r["pred"] is None or len(r["pred"]) != n:
        fails.append(Failure(i, "predict:" + key0, "predict on the training design panicked or has the wrong length"))
    else:
        worst = 0.0
        for ii in range(n):
            m = A["mu"][ii]
            if fam == "gaussian":    # identity link: absolute error of the dot product
                e = abs(mp.mpf(r["pred"][ii]) - m) / (A["eta_abs"][ii] + tiny)
            else:                    # exp / logistic: relative error (1 + |eta|) eps
                e = abs(mp.mpf(r["pred"][ii]) - m) / (abs(m) + tiny) / (1 + A["eta_abs"][ii])
            worst = max(worst, float(e))
        stat("pred", worst / EPS, key0)
        if worst > C_PRED * EPS:
            fails.append(Failure(i, "predict:" + key0, "a prediction differs from inv_link(x.beta + offset): scaled rel err %.3e > %.3e" % (worst, C_PRED * EPS)))
    # ---- 6b. score(x, y) = family deviance at predict(x): rounding only
    if r["score"] is None:
        fails.append(Failure(i, "score:" + key0, "score on the training data panicked"))
    else:
        serr = abs(mp.mpf(r["score"]) - A["dev"])
        stat("scoreacc", float(serr / (dfloor + tiny)), key0)
        if serr > C_ROUND * dfloor:
            fails.append(Failure(i, "score:" + key0, "score(x, y) = %r differs from the family deviance at inv_link(x.beta + offset) = %r by %.3e > %.3e" % (
                r["score"], float(A["dev"]), float(serr), float(C_ROUND * dfloor)), f2h(float(A["dev"]))))
    r["_step"] = float(step * mp.sqrt(max(abs(Hi[a, a]) for a in range(p))))
    return r


# ---------------------------------------------------------------- oracle for the directly called family methods
DBL_MAX = 1.7976931348623157e308
DBL_MIN = 2.2250738585072014e-308
C_FAM = 8.0          # elementary formulas: <= C_FAM * eps relative (observed max ratio: see C06_STATS "fam*")
STATS.update({"fam_inv": 0.0, "fam_dinv": 0.0, "fam_dderiv": 0.0, "fam_var": 0.0, "fam_dev": 0.0, "fam_pdev": 0.0})


def _parse_args(t, k, kinds):
    out = []
    for kd in kinds:
        if kd == "v":
            m = int(t[k])
            out.append([h2f(x) for x in t[k + 1:k + 1 + m]])
            k += 1 + m
        else:
            out.append(h2f(t[k]))
            k += 1
    return out


def _mp_inv_link(mp, fam):
    if fam == "gaussian":
        return lambda e: e
    if fam == "bernoulli":
        return lambda e: 1 / (1 + mp.exp(-e))
    return mp.exp


def _close(mp, got, ref, rel, extra_abs=0.0):
    """got (double) vs ref (mpf, finite): relative bound, overflow to +-inf and underflow below the normal range allowed
    exactly where the reference leaves the double range.  -> (ok, ratio in units of eps)"""
    if got != got:
        return False, float("inf")
    if abs(ref) > DBL_MAX:
        return (got == math.copysign(float("inf"), float(mp.sign(ref))) or abs(got) >= DBL_MAX), 0.0
    if math.isinf(got):
        return abs(ref) >= DBL_MAX * (1 - rel), 0.0
    err = abs(mp.mpf(got) - ref)
    bound = rel * abs(ref) + DBL_MIN + extra_abs      # results below the normal range: absolute 2^-1022
    ratio = float(err / (EPS * abs(ref) + DBL_MIN + extra_abs / max(rel / EPS, 1)))
    return err <= bound, ratio


def dev_reference(mp, fam, y, mu):
    """(textbook deviance, rounding scale) for (y, mu) inside the family's domain, else None"""
    tot, sc = mp.mpf(0), mp.mpf(0)
    for yy, m in zip(y, mu):
        if not (math.isfinite(yy) and math.isfinite(m)):
            return None
        Y, M = mp.mpf(yy), mp.mpf(m)
        if fam == "gaussian":
            tot += (Y - M) ** 2
            sc += (abs(Y) + abs(M)) ** 2
        elif fam == "bernoulli":
            if yy not in (0.0, 1.0) or not (0 < m < 1):
                return None
            tot += -2 * (mp.log(M) if yy == 1.0 else mp.log(1 - M))
            sc += 2 * (abs(mp.log(M)) + abs(mp.log(1 - M))) + 2
        elif fam in ("poisson", "quasipoisson"):
            if yy < 0 or m <= 0:
                return None
            yl = Y * mp.log(Y) if yy > 0 else 0
            tot += 2 * (M - Y - Y * mp.log(M) + yl)
            sc += 2 * (abs(M) + abs(Y) + abs(Y * mp.log(M)) + abs(yl))
        else:
            if yy <= 0 or m <= 0 or not (DBL_MIN <= Y / M <= DBL_MAX):
                return None      # y/mu leaves the normal double range (ln(0) = -inf in doubles): tie only
            tot += 2 * ((Y - M) / M - mp.log(Y / M))
            sc += 2 * (abs(Y / M) + 1 + abs(mp.log(Y / M)))
    if sc > mp.mpf(10) ** 300 or tot > mp.mpf(10) ** 300:
        return None       # intermediate overflow possible: tie only
    return tot, sc


def check_fam(mp, i, line, rep, fails):
    t = line.split()
    fam, meth = t[1], t[2]
    st, toks = parse_reply(rep)
    key = "fam:%s:%s" % (fam, meth)

    def fail(msg, exp=None):
        fails.append(Failure(i, key, msg, exp))

    def getvec():
        m = int(toks[0])
        return [h2f(x) for x in toks[1:1 + m]]

    if meth == "has_dispersion":
        if st != "ok" or toks != ["1" if HAS_DISP[fam] else "0"]:
            fail("has_dispersion = %r, expected %s (free dispersion: Gaussian, QuasiPoisson, Gamma)" % (toks, HAS_DISP[fam]))
        return
    if meth == "inv_link":
        (eta,) = _parse_args(t, 3, "v")
        if st != "ok":
            return fail("inv_link panicked")
        out = getvec()
        if len(out) != len(eta):
            return fail("inv_link returns %d values for %d linear predictors" % (len(out), len(eta)))
        f = _mp_inv_link(mp, fam)
        for e, o in zip(eta, out):
            if e != e:
                if o == o:
                    return fail("inv_link(NaN) = %r" % o)
                continue
            if math.isinf(e):
                exp = e if fam == "gaussian" else ((1.0 if e > 0 else 0.0) if fam == "bernoulli" else (e if e > 0 else 0.0))
                if o != exp:
                    return fail("inv_link(%r) = %r, expected %r" % (e, o, exp), f2h(exp))
                continue
            good, ratio = _close(mp, o, f(mp.mpf(e)), C_FAM * EPS)
            stat("fam_inv", ratio, key)
            if not good:
                return fail("inv_link(%r) = %r, expected %s (identity / logistic / exp)" % (e, o, mp.nstr(f(mp.mpf(e)), 20)))
        return
    if meth == "variance":
        (mu,) = _parse_args(t, 3, "v")
        if st != "ok":
            return fail("variance panicked")
        out = getvec()
        if len(out) != len(mu):
            return fail("variance returns %d values for %d means" % (len(out), len(mu)))
        for m, o in zip(mu, out):
            if fam == "gaussian":
                if o != 1.0:
                    return fail("Gaussian variance function is %r, expected 1" % o)
                continue
            if not math.isfinite(m):
                continue
            M = mp.mpf(m)
            ref = M * (1 - M) if fam == "bernoulli" else (M if fam in ("poisson", "quasipoisson") else M * M)
            good, ratio = _close(mp, o, ref, C_FAM * EPS)
            stat("fam_var", ratio, key)
            if not good:
                return fail("variance(%r) = %r, expected %s (mu(1-mu) / mu / mu^2)" % (m, o, mp.nstr(ref, 20)))
        return
    if meth == "d_inv_link":
        eta, mu = _parse_args(t, 3, "vv")
        if st != "ok":
            return fail("d_inv_link panicked")
        out = getvec()
        want = len(eta) if fam == "gaussian" else len(mu)
        if len(out) != want:
            return fail("d_inv_link returns %d values, expected %d" % (len(out), want))
        f = _mp_inv_link(mp, fam)
        for k, o in enumerate(out):
            if fam == "gaussian":
                if o != 1.0:
                    return fail("Gaussian d_inv_link is %r, expected 1" % o)
                continue
            m = mu[k]
            if not math.isfinite(m):
                continue
            M = mp.mpf(m)
            ref = M * (1 - M) if fam == "bernoulli" else M
            good, ratio = _close(mp, o, ref, C_FAM * EPS)
            stat("fam_dinv", ratio, key)
            if not good:
                return fail("d_inv_link(mu = %r) = %r, expected %s (the derivative of the inverse link written in mu)" % (m, o, mp.nstr(ref, 20)))
            # ... and, where mu IS the inverse link of eta, the numerical derivative of the textbook inverse link at eta.
            # mu carries half an ulp, which d mu/d eta = mu(1-mu) amplifies to an absolute eps*mu: the bound has that term.
            if k < len(eta) and math.isfinite(eta[k]) and abs(eta[k]) <= 700 and f2h(py_inv_link(fam, eta[k])) == f2h(m):
                E = mp.mpf(eta[k])
                with mp.workdps(60):
                    d = mp.diff(f, E)
                good, ratio = _close(mp, o, d, C_FAM * EPS, extra_abs=C_FAM * EPS * abs(m))
                stat("fam_dderiv", float(abs(mp.mpf(o) - d) / (EPS * (abs(d) + abs(M)) + DBL_MIN)), key)
                if not good:
                    return fail("d_inv_link at eta = %r is %r but d/d eta inv_link = %s" % (eta[k], o, mp.nstr(d, 20)))
        return
    if meth in ("deviance", "penalized_deviance"):
        if meth == "deviance":
            y, mu = _parse_args(t, 3, "vv")
            alpha, coef = 0.0, [0.0]
        else:
            y, mu, alpha, coef = _parse_args(t, 3, "vvsv")
        if len(y) != len(mu) or (meth == "penalized_deviance" and len(coef) == 0):
            if st != "panic":
                fail("%s on mismatched lengths / an empty coefficient vector returned %r instead of panicking" % (meth, rep[:40]))
            return
        if st != "ok":
            return fail("%s panicked on well-formed arguments" % meth)
        got = h2f(toks[0])
        ref = dev_reference(mp, fam, y, mu)
        if ref is None or not math.isfinite(alpha) or not all(math.isfinite(c) for c in coef):
            return           # outside the family's domain (or overflow range): decided by the bit-exact tie only
        dev, sc = ref
        nrm = mp.sqrt(sum(mp.mpf(c) ** 2 for c in coef[1:]))
        if nrm > mp.mpf(10) ** 150 or (nrm != 0 and nrm < mp.mpf(10) ** -150):
            return           # c*c leaves the double range
        # the source: deviance + alpha * ||coef[1..]||_2  (intercept excluded; the norm is NOT squared, see the report)
        exp = dev + mp.mpf(alpha) * nrm
        bound = 32 * (len(y) + 1) * EPS * (sc + abs(alpha) * nrm) + DBL_MIN
        err = abs(mp.mpf(got) - exp)
        stat("fam_dev" if meth == "deviance" else "fam_pdev", float(err / (bound / 32)), key)
        if got != got or err > bound:
            return fail("%s = %r, expected %s (textbook deviance%s)" % (meth, got, mp.nstr(exp, 20),
                        "" if meth == "deviance" else " + alpha * ||coef[1..]||"), f2h(float(exp)))
        if os.environ.get("C06_SQUARED_PENALTY") and meth == "penalized_deviance" and alpha > 0 and nrm != 0 and nrm != 1:
            exp2 = dev + mp.mpf(alpha) * nrm ** 2
            if abs(mp.mpf(got) - exp2) > bound * (1 + nrm):
                fails.append(Failure(i, "glm:penalized-deviance-unsquared-norm",
                                     "penalized_deviance adds alpha*||beta|| = %s, the ridge (L2) penalty whose gradient alpha*beta the scoring "
                                     "step uses is alpha*||beta||^2 = %s" % (mp.nstr(mp.mpf(alpha) * nrm, 8), mp.nstr(mp.mpf(alpha) * nrm ** 2, 8))))
        return
    if meth in ("iwr", "iww"):
        (y,) = _parse_args(t, 3, "v")
        if fam not in ("gaussian", "bernoulli"):
            if st != "ok" or toks != ["none"]:
                fail("%s of a family without a closed-form IRLS start returned %r, expected None" % (meth, rep[:40]))
            return
        if st != "ok":
            return fail("%s panicked" % meth)
        n = len(y)
        if meth == "iwr":      # z = eta + (y - mu) / (dmu/deta) at eta = 0: y (identity link), (y - 1/2) / (1/4) (logit, mu = 1/2)
            exp = list(y) if fam == "gaussian" else [(v - 0.5) / 0.25 for v in y]
        else:                  # W = (dmu/deta)^2 / var at eta = 0, normalised by n: 1/n, (1/4)/n
            exp = [(1.0 if fam == "gaussian" else 0.25 * 1.0) / float(n) for _ in y]
        if toks != vec(exp).split():
            fail("%s = %s, expected %s" % (meth, " ".join(toks)[:120], vec(exp)[:120]), vec(exp))
        return


def check_setcoef_after_fit(mp, i, lines, impl, fails):
    """lines[i-1] = the `glm` fit, lines[i] = `# setcoef`, lines[i+1] = `setcoef fam 0 ...` on the same problem"""
    t = lines[i + 1].split()
    fam = t[1]
    m = int(t[6])
    c = [h2f(x) for x in t[7:7 + m]]
    (n, p, x, y, w, off), _ = _parse_problem(t, 7 + m)
    key = "setcoef:%s:n%d:p%d:c%d" % (fam, n, p, m)
    sa, ta = parse_reply(impl[i - 1])
    sb, tb = parse_reply(impl[i + 1])
    if sa != sb:
        fails.append(Failure(i + 1, key, "fit -> set_coef changes the outcome of the fit itself: %s vs %s" % (sa, sb)))
        return
    if sa != "ok":
        return
    a, b = parse_result(ta), parse_result(tb)
    if fs(b["coef"] or []) != fs(c):
        fails.append(Failure(i + 1, key, "coef() after set_coef is %s, expected the coefficients that were set" % (b["coef"],), vec(c)))
        return
    hx = lambda v: v if isinstance(v, bool) or v is None else (fs(v) if isinstance(v, list) else f2h(v))
    for name in ("ok", "dev", "disp", "cov", "se", "aic", "bic"):     # what `fit` stored must be untouched
        if hx(a[name]) != hx(b[name]):
            fails.append(Failure(i + 1, key, "set_coef changed %s: %s -> %s (only the coefficient vector may change)" % (name, hx(a[name])[:60] if isinstance(hx(a[name]), str) else a[name], hx(b[name])[:60] if isinstance(hx(b[name]), str) else b[name])))
            return
    if p == 0 or m % p != 0:
        if b["pred"] is not None:
            fails.append(Failure(i + 1, key, "predict with %d coefficients for %d columns returned a value instead of panicking" % (m, p)))
        return
    if m != p:
        return      # k*p coefficients: matmul treats them as a p x k matrix (tie only)
    if b["pred"] is None or len(b["pred"]) != n:
        fails.append(Failure(i + 1, key, "predict after set_coef panicked or has the wrong length"))
        return
    if not all(math.isfinite(v) for v in c):
        return
    f = _mp_inv_link(mp, fam)
    for ii in range(n):
        eta = sum(mp.mpf(x[ii * p + j]) * mp.mpf(c[j]) for j in range(p)) + (mp.mpf(off[ii]) if off is not None else 0)
        ea = sum(abs(mp.mpf(x[ii * p + j]) * mp.mpf(c[j])) for j in range(p)) + (abs(mp.mpf(off[ii])) if off is not None else 0)
        ref = f(eta)
        err = abs(mp.mpf(b["pred"][ii]) - ref)
        bnd = C_PRED * EPS * ((ea + mp.mpf(10) ** -300) if fam == "gaussian" else abs(ref) * (1 + ea)) + DBL_MIN
        if err > bnd:
            fails.append(Failure(i + 1, key, "predict after set_coef: observation %d is %r, expected inv_link(x.c + offset) = %s" % (
                ii, b["pred"][ii], mp.nstr(ref, 17)), f2h(float(ref))))
            return


def oracle(lines, impl):
    mp = _mp()
    fails = []
    results = {}
    for i, (l, rep) in enumerate(zip(lines, impl)):
        if l.startswith("fam "):
            try:
                check_fam(mp, i, l, rep, fails)
            except Exception:
                if os.environ.get("C06_DEBUG"):
                    raise
            continue
        if l.startswith("setcoef "):
            t = l.split()
            if t[2] == "1":      # never fitted: coef() is what was set, deviance() is Err, predict panics on p = None
                m = int(t[6])
                exp = "= %s P P" % vec([h2f(v) for v in t[7:7 + m]])
                if rep.strip() != exp:
                    fails.append(Failure(i, "setcoef:unfitted:" + t[1], "set_coef on a fresh object: reply %r, expected %r" % (rep[:80], exp[:80]), exp))
            continue
        if l.startswith("hist2 "):
            # every READ of a history: equals what a fresh object fitted with the configuration of the last fit reports
            # (bit for bit, when the twin lines follow) and passes the single-fit clauses (so the line decides itself)
            try:
                fam, steps = parse_h2(l)
                tw = h2_twins(fam, steps)
                st, _ = parse_reply(rep)
                if st == "panic":
                    continue
                if st != "ok":
                    fails.append(Failure(i, "crash:hist2 %s" % fam, "executor reply %r" % rep[:80]))
                    continue
                reps = [r.strip() for r in rep.strip()[1:].split(";")]
                if len(reps) != len(tw):
                    fails.append(Failure(i, "history:%s:shape" % fam, "%d reports for %d reads" % (len(reps), len(tw))))
                    continue
                has_tw = i + 1 < len(lines) and lines[i + 1].startswith("# twins2")
                kinds = [s_[0] for s_ in steps]
                for j, rj in enumerate(reps):
                    if tw[j] is None:
                        continue
                    nf = len(fails)
                    check_fit(mp, i, tw[j], "= " + rj, fails)
                    bad = len(fails) > nf and any(not f.key.startswith("glm:weights") for f in fails[nf:])
                    if has_tw and impl[i + 2 + j].strip() != "= " + rj:
                        a, b = impl[i + 2 + j].split()[1:], rj.split()
                        names = ["status", "coef", "deviance", "dispersion", "covariance", "standard errors", "predict", "aic", "bic", "score"]
                        diff = "?"
                        try:
                            pa, pb = parse_result(a), parse_result(b)
                            for nm, kk in zip(names, ["ok", "coef", "dev", "disp", "cov", "se", "pred", "aic", "bic", "score"]):
                                if repr(pa[kk]) != repr(pb[kk]):
                                    diff = nm
                                    break
                        except Exception:
                            pass
                        fails.append(Failure(i, "history:%s:read%d-of-%d" % (fam, j + 1, len(reps)),
                                             "read %d of %d in the history %s on one GLM object: %s differs from what a fresh object fitted to the "
                                             "same data reports (stale state survives `fit`)" % (j + 1, len(reps), " ".join(kinds), diff),
                                             impl[i + 2 + j].strip()))
                        break
                    if bad:
                        break
            except Exception:
                if os.environ.get("C06_DEBUG"):
                    raise
            continue
        if l.startswith("hist "):
            # every fit of a history: Ok => the score equations hold (the same mpmath checks as for a single fit, on the
            # equivalent fresh-object request);  the report (status and every accessor) equals the fresh twin's, bit for bit
            try:
                fam, steps = parse_hist(l)
                tw = hist_twins(fam, steps)
                st, _ = parse_reply(rep)
                has_tw = i + 1 < len(lines) and lines[i + 1].startswith("# twins")
                if st == "panic":
                    if has_tw and any(not impl[i + 2 + j].startswith("! panic") for j in range(len(tw))) and \
                            all(not impl[i + 2 + j].startswith("! panic") for j in range(len(tw))):
                        fails.append(Failure(i, "history:%s:panic" % fam, "a history of fits panicked although every fit succeeds on a fresh object"))
                    continue
                if st != "ok":
                    fails.append(Failure(i, "crash:hist %s" % fam, "executor reply %r" % rep[:80]))
                    continue
                reps = [r.strip() for r in rep.strip()[1:].split(";")]
                if len(reps) != len(steps):
                    fails.append(Failure(i, "history:%s:shape" % fam, "%d reports for %d fits" % (len(reps), len(steps))))
                    continue
                for j, rj in enumerate(reps):
                    check_fit(mp, i, tw[j], "= " + rj, fails)
                    if has_tw and impl[i + 2 + j].strip() != "= " + rj:
                        a = impl[i + 2 + j].split()
                        b = rj.split()
                        what = ("status %s, the fresh object answers %s" % ("Ok" if b[0] == "1" else "Err", "Ok" if a[1:2] == ["1"] else ("Err" if a[1:2] == ["0"] else a[:2]))
                                if a[1:2] != b[0:1] else "the accessors differ from those of a fresh object configured identically")
                        fails.append(Failure(i, "history:%s:fit%d-of-%d" % (fam, j + 1, len(steps)),
                                             "fit %d of %d on one GLM object (after %s): %s" % (
                                                 j + 1, len(steps), " -> ".join("Ok" if r.split()[0] == "1" else "Err" for r in reps[:j]) or "nothing", what),
                                             impl[i + 2 + j].strip()))
                        break
            except Exception:
                if os.environ.get("C06_DEBUG"):
                    raise
            continue
        if l.startswith("# setcoef") and 0 < i < len(lines) - 1:
            try:
                check_setcoef_after_fit(mp, i, lines, impl, fails)
            except Exception:
                if os.environ.get("C06_DEBUG"):
                    raise
            continue
        if not l.startswith("glm"):
            continue
        st, toks = parse_reply(rep)
        t = l.split()
        if st == "panic":
            # panics are legitimate only for malformed requests / singular information; flag a panic on a well-formed problem
            continue
        if st != "ok":
            if st not in ("skip",):
                fails.append(Failure(i, "crash:%s" % " ".join(t[:4]), "executor reply %r" % rep[:80]))
            continue
        try:
            results[i] = check_fit(mp, i, l, rep, fails)
        except Exception as e:   # malformed corpus line etc.: never a false alarm
            if os.environ.get("C06_DEBUG"):
                raise
            results[i] = None
    # ---- 7. permutation invariance: request i+2 is request i with rows permuted by the `# perm` line i+1
    for i, l in enumerate(lines):
        if not l.startswith("# perm") or i == 0 or i + 1 >= len(lines):
            continue
        a, b = results.get(i - 1), results.get(i + 1)
        if not a or not b or not a["ok"] or not b["ok"]:
            continue
        perm = [int(s) for s in l.split()[2:]]
        t = lines[i - 1].split()
        key0 = "perm:%s:n%s:p%s" % (t[1], t[2], t[3])
        tol, kH, n = a["_tol"], a["_kH"], a["_n"]
        sc = max(abs(v) for v in a["coef"]) + 1e-300
        # rounding-level agreement; should the two runs stop one pass apart they differ by at most the last step (check 1)
        bnd = C_PERM * n * EPS * kH + 2 * (a.get("_step", 0.0) + b.get("_step", 0.0)) / sc
        err = max(abs(u - v) for u, v in zip(a["coef"], b["coef"])) / sc
        stat("perm", err / (n * EPS * kH), key0)
        if err > bnd:
            fails.append(Failure(i + 1, key0, "fit changes under a permutation of the observations: coefficients differ by rel %.3e > %.3e" % (err, bnd)))
            continue
        derr = abs(a["dev"] - b["dev"]) / (abs(a["dev"]) + 1e-300)
        if derr > bnd:
            fails.append(Failure(i + 1, key0, "deviance changes under a permutation of the observations: rel %.3e > %.3e" % (derr, bnd)))
            continue
        if a["pred"] and b["pred"] and len(a["pred"]) == len(perm) == len(b["pred"]):
            perr = max(abs(b["pred"][k] - a["pred"][perm[k]]) / (abs(a["pred"][perm[k]]) + 1e-300) for k in range(len(perm)))
            if perr > bnd * 10:
                fails.append(Failure(i + 1, key0, "predictions are not permuted along with the observations: rel %.3e > %.3e" % (perr, bnd * 10)))
    # ---- 8. one object fitted twice == the direct fit (`# same`); exact scale equivariance of the Gaussian fit (`# scale k`)
    for i, l in enumerate(lines):
        if i == 0 or i + 1 >= len(lines):
            continue
        if l.startswith("# same"):
            if impl[i - 1].strip() != impl[i + 1].strip():
                fails.append(Failure(i - 1, "refit:" + " ".join(lines[i + 1].split()[1:4]),
                                     "a GLM object fitted a second time gives a different result than a fresh object on the same data: %s vs %s" % (
                                         impl[i - 1][:120], impl[i + 1][:120]), impl[i + 1].strip()))
        elif l.startswith("# scale"):
            k = int(l.split()[2])
            sa, ta = parse_reply(impl[i - 1])
            sb, tb = parse_reply(impl[i + 1])
            key0 = "scale:%s:k%d" % (" ".join(lines[i - 1].split()[1:4]), k)
            if sa != sb:
                fails.append(Failure(i + 1, key0, "status changes under an exact power-of-two rescaling of the responses: %s vs %s" % (sa, sb)))
                continue
            if sa != "ok":
                continue
            a, b = parse_result(ta), parse_result(tb)
            sc = lambda v, e: None if v is None else [math.ldexp(u, e) for u in v]
            exp = {"ok": a["ok"], "coef": sc(a["coef"], k), "dev": math.ldexp(a["dev"], 2 * k),
                   "disp": None if a["disp"] is None else math.ldexp(a["disp"], 2 * k), "cov": sc(a["cov"], 2 * k),
                   "se": sc(a["se"], k), "pred": sc(a["pred"], k),
                   "score": None if a["score"] is None else math.ldexp(a["score"], 2 * k)}
            hx = lambda v: v if isinstance(v, bool) or v is None else (fs(v) if isinstance(v, list) else f2h(v))
            for name, e in exp.items():
                if hx(e) != hx(b[name]):
                    fails.append(Failure(i + 1, key0, "%s is not exactly rescaled by 2^%d: got %s, expected %s" % (name, k, hx(b[name])[:80], hx(e)[:80]), hx(e)))
                    break
    if os.environ.get("C06_STATS"):
        print("[C06 oracle ratios] " + " ".join("%s=%.3g@%s" % (k, v, WHERE.get(k)) for k, v in sorted(STATS.items())), flush=True)
    return fails

# --- deep theorems (second pass; modules written in their own files, wired here by the lead)
PROOF_MODULES = PROOF_MODULES + ['Compute.Props.C06Perm']
REQUIRED_THEOREMS = REQUIRED_THEOREMS + ['Cv.C06P.fit_perm', 'Cv.C06P.fit_perm_none', 'Cv.C06P.fit_perm_coef', 'Cv.C06P.fit_perm_deviance', 'Cv.C06P.isDesign_perm', 'Cv.C06P.predict_perm']
_np = list(NOT_PROVED)
_np[2] = None
NOT_PROVED = [x for x in _np if x is not None]

# --- deep theorems (2: solver hypothesis discharged)
PROOF_MODULES = PROOF_MODULES + ['Compute.Props.C01SolveApps']
REQUIRED_THEOREMS = REQUIRED_THEOREMS + ['Cv.C01Solve.glm_solver_exact', 'Cv.C01Solve.glm_fixed_point_unconditional', 'Cv.C01Solve.glm_gaussian_normal_equations_unconditional']
_np = list(NOT_PROVED)
_np = [('the solver hypothesis is discharged for regular (non-singular) information matrices: Props/C01SolveApps instantiates the fixed-point and Gaussian normal-equation theorems with the model of `solve` itself; on a singular information matrix the model (like a field) divides by a zero pivot and the theorems do not apply' if 'correctness of the linear solver' in str(x) else x) for x in _np]
NOT_PROVED = [x for x in _np if x is not None]

# --- deep theorems (C06Dev)
PROOF_MODULES = PROOF_MODULES + ['Compute.Props.C06Dev']
REQUIRED_THEOREMS = REQUIRED_THEOREMS + ['Cv.C06D.deviance_textbook', 'Cv.C06D.poisson_deviance', 'Cv.C06D.bernoulli_deviance', 'Cv.C06D.gamma_deviance', 'Cv.C06D.gamma_deviance_split', 'Cv.C06D.unitDev_eq_zero_iff', 'Cv.C06D.deviance_nonneg', 'Cv.C06D.bernoulli_fractional_gap']
NOT_PROVED = [x for x in NOT_PROVED if not any(k in str(x) for k in ('textbook closed forms',))]
NOT_PROVED = NOT_PROVED + ["for fractional Bernoulli responses 0 < y < 1 (outside the property's quantifier: responses are 0/1) the source omits the saturated-model term of the textbook binomial deviance (bernoulli_fractional_gap)"]

# --- source tie (translator tools/rs2lean.py: the straight-line functions of this property are regenerated from /repo/src on every run
# into lean/Compute/Generated/SrcC06.lean and proved equal to the hand model in Props/SrcTieC06.lean)
from . import srctie
srctie.wire(globals(), 'C06')

# --- deep theorems (Rounding7, wired by the lead)
PROOF_MODULES = PROOF_MODULES + [m for m in ['Compute.Lemmas.Rounding7', 'Compute.Props.Rounding7'] if m not in PROOF_MODULES]
REQUIRED_THEOREMS = REQUIRED_THEOREMS + ['Cv.Rounding7.scoringStep_system', 'Cv.Rounding7.scoring_fixed_point', 'Cv.Rounding7.loopBody_scoringStep', 'Cv.Rounding7.computeDdbeta_fl', 'Cv.Rounding7.computeDbeta_fl', 'Cv.Rounding7.dbetaCell_pert', 'Cv.Rounding7.solve_backward_W', 'Cv.Rounding7.step_small', 'Cv.Rounding7.invLinkF_error']
NOT_PROVED = [x for x in NOT_PROVED if not str(x).startswith('floating-point rounding of the scoring iteration')] + ["floating-point rounding of the scoring loop: one IRLS step IS analysed in the standard model (Props/Rounding7 scoringStep_system): the computed Newton step solves (X^T W X + alpha I + E) d = -X^T r + alpha P beta + e with |E| <= gamma_(n+2) |X|^T|W||X| + u(|H_aa|+alpha) on the diagonal + gamma_(3p+1) W_solve and |e| <= gamma_(n+1) |X|^T|r| + gamma_2(|g|+alpha|beta|), W, r the computed working weights/residuals (3 resp. 4 roundings), the link values within u_f (ExpLnStd) of the exact ones at the computed linear predictor; and 'converged in floats => score small' (scoring_fixed_point): if the step leaves beta unchanged then |d_b| <= gamma_1|beta_b| and the score built from the computed residuals is bounded by gamma_1 (|X^T W X + alpha I| + |E|)|beta| + |e|; the distance of that score to the score at the exact link values, and convergence of the iteration itself, are oracle only"]

# --- deep theorems (Rounding8, wired by the lead)
PROOF_MODULES = PROOF_MODULES + [m for m in ['Compute.Lemmas.Rounding8', 'Compute.Props.Rounding8'] if m not in PROOF_MODULES]
REQUIRED_THEOREMS = REQUIRED_THEOREMS + ['Cv.Rounding8.fixed_point_exact_score', 'Cv.Rounding8.loopBody_links', 'Cv.Rounding8.linearPredictor_error', 'Cv.Rounding8.muHat_error', 'Cv.Rounding8.sigma_lipschitz', 'Cv.Rounding8.exp_lipschitz', 'Cv.Rounding8.dInvLink_eq_variance', 'Cv.Rounding8.variance_map', 'Cv.Rounding8.varF_ne_zero', "Cv.Rounding8.scoring_fixed_point'"]
NOT_PROVED = list(NOT_PROVED) + ["for the canonical families (Gaussian, Bernoulli, Poisson, quasi-Poisson) 'converged in floats => the EXACT penalised score is small' IS proved (Props/Rounding8 fixed_point_exact_score): |S(beta)_a| <= gamma_1 (|X^T W X + alpha I| + |E|)|beta| + |e| + sum_i |X_ia||w_i| (muErr_i + gamma_4 |y_i - mu_i|), muErr = link accuracy (ExpLnStd: exact / gamma_2+gamma^f_1 / u_f) + Lipschitz constant (1, 1/4, e^eta) x gamma_(p+2)(|X||beta| + |offset|); hypotheses: non-zero LU pivots if that route is taken, no saturated logistic variance; Gamma / Exponential (log link, variance mu^2) and convergence of the iteration itself are oracle only"]

# --- review repairs in the Rounding layer (renamed stdmodel_* theorems, underflow-aware variants, genuine FlModel instance; wired by the lead)
PROOF_MODULES = PROOF_MODULES + [m for m in ['Compute.Lemmas.FlModelGrid', 'Compute.Props.RoundingGrid'] if m not in PROOF_MODULES]
REQUIRED_THEOREMS = REQUIRED_THEOREMS + [t for t in ['Cv.Rounding7.Examples3.stepI', 'Cv.RoundingGrid.Step.stepG', 'Cv.RoundingGrid.Step.etaGv', 'Cv.FlModel.grid_abs_sub_le', 'Cv.FlModel.grid_idem', 'Cv.FlModel.grid_mono', 'Cv.FlModel.grid_rnd_one', 'Cv.FlModel.grid_rnd_natCast', 'Cv.FlModel.grid_rnd_dyadic', 'Cv.FlModel.f64grid_u', 'Cv.FlModel.f64grid_mono'] if t not in REQUIRED_THEOREMS]
NOT_PROVED = list(NOT_PROVED) + ['the scoring-step rounding theorems are stated for p >= 2 coefficients (p = 1 not covered); non-vacuity at u > 0 is shown on a complete evaluated step whose non-zero step is absorbed (1 % model and f64grid) and where the exact score is non-zero; for the log link the non-zero-variance hypothesis is automatic only absent exp underflow', 'FlModel has a genuine instance, FlModel.grid p (radix 2, p digits, round to nearest, unbounded exponent; f64grid has u = 2^-53), proved to satisfy the standard model and to be idempotent and monotone, with integers <= 2^p and dyadics exact (Lemmas/FlModelGrid); headline rounding theorems are instantiated on it (Props/RoundingGrid); overflow and underflow remain outside the model']


# --- FINAL claim lists (second review): one coherent literal block; it replaces every earlier assignment / rewrite above
NOT_PROVED = [
    "that the code's stopping test (relative change of the penalised deviance below the tolerance) implies a small score: false "
    "in general; decided per run by the mpmath stationarity oracle on the returned coefficients",
    "about the RETURNED coefficients there are theorems only for the unpenalised Gaussian family: gaussian_fit_normal_equations "
    "(for ANY solver satisfying SolvesExactly) and gaussian_fit_normal_equations_solve (for the model of the code's own Cv.solve, "
    "under Regular = SqrtOk and LuPivotsNonzero of the returned information matrix): every pass is then an exact weighted "
    "least-squares solve. For ridge-Gaussian fits and the five other families the fixed-point theorems say where the iteration "
    "stops moving, not that the returned iterate is there: oracle only. The ridge fixed point IS the ridge solution with "
    "unpenalised intercept (gaussian_normal_equations); apply_ddbeta_penalty adding alpha to the intercept diagonal changes the "
    "convergence rate only",
    "the stored deviance and information matrix are ONE SCORING STEP STALE relative to the returned coefficients (fit_last_pass "
    "states exactly this): the clause `deviance at the fitted means` holds up to the last step; the oracle allows the last-step "
    "bound and observes at most ~36 * tol * deviance (ridge fits)",
    "solver and inverse correctness are used only under Regular (SqrtOk and LuPivotsNonzero; C01): fixed-point, Gaussian "
    "normal-equation and covariance_isInverse theorems for Cv.solve / Cv.invertMatrix carry that hypothesis (not composed with "
    "regular_of_det for the GLM); on a singular information matrix the field model divides by a zero pivot and nothing is claimed",
    "floating-point rounding of the whole iteration is not bounded by a theorem (bit-exact tie + oracle). What IS proved (other "
    "owner: Props/Rounding7, Rounding8, for p >= 2 coefficients only; p = 1 is inside the quantifier and covered by tie + oracle "
    "only): one scoring step in the standard model is a perturbed penalised weighted normal system with explicit bounds "
    "(scoringStep_system), and for the canonical families a step that leaves beta unchanged IN FLOATING POINT bounds the exact "
    "penalised score (fixed_point_exact_score). That hypothesis is not the code's deviance-based stopping test, so the distance of "
    "the RETURNED coefficients from the exact score equations remains oracle-only",
    "OPEN FINDING glm:weights:unweighted-deviance (known_findings.txt; printed as KNOWN-FINDING on every run): with prior weights "
    "the stored deviance is the unweighted sum while score, information and n = round(sum w) are weighted, so dispersion, aic/bic "
    "and the standard errors of the Gaussian / QuasiPoisson / Gamma families are inconsistent with the weights; the oracle accepts "
    "the unweighted sum (known finding) or the weighted sum (a repaired crate) and judges the dependent accessors against the "
    "stored deviance",
    "observation, not a finding: penalized_deviance adds alpha*||beta_1..||_2 (unsquared) although the ridge penalty matching the "
    "gradient alpha*beta is alpha*||beta||^2; it only drives the stopping test and is modelled as it is (opt-in check "
    "C06_SQUARED_PENALTY=1)",
    "d_inv_link is evaluated through the rounded mean: accurate to eps*mu absolute, not relative, as mu -> 1 (oracle bound says so)",
    "fixed_point_iff_score writes the score with the totalised quotient dmu/var and has no var != 0 guard; with exp abstract the "
    "textbook canonical score sum x (y - mu) is implied only through canonical_variance_eq_dInvLink where var != 0",
    "for fractional Bernoulli responses 0 < y < 1 (outside the quantifier: responses are 0/1) the source omits the saturated-model "
    "term of the textbook binomial deviance (bernoulli_fractional_gap)",
]
ASSUMPTIONS = ASSUMPTIONS + [
    "has_converged at a previous penalised deviance of exactly -0.0 with a non-zero current one: the source evaluates "
    "|loss| / (-0.0) = -inf < tol (true), the model answers false; a deviance of exactly -0.0 is not reached by any generated "
    "request (it would show as a correspondence difference)",
]

