/-
Spelling of the source translator `tools/rs2lean.py` for the redraw loop

    let mut v = draw();  while cond(v) { v = draw(); }

over an abstract generator state: `Cv.SrcDraw.redrawWhile cond draw fuel g` is the first draw that does not satisfy `cond` and the
state after it; `none` = the first `fuel` draws all satisfied it (the loop is fuel-bounded, as every rejection loop of the
models).  The hand model `Cv.redrawNonzero` (Model/Samplers.lean) is the instance `cond = (· == 0)`; the source tie proves the
two equal (`Props/SrcTieC03Mut.lean`).  Core Lean only.
-/
namespace Cv.SrcDraw

variable {α σ : Type}

def redrawWhile (cond : α → Bool) (draw : σ → α × σ) : Nat → σ → Option (α × σ)
  | 0, _ => none
  | fuel + 1, g =>
    let r := draw g
    if cond r.1 then redrawWhile cond draw fuel r.2 else some r

end Cv.SrcDraw
