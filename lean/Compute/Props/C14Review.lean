import Compute.Props.C14
import Compute.Props.C01SolveApps
import Mathlib.Algebra.Polynomial.Roots
import Mathlib.LinearAlgebra.Matrix.ToLinearEquiv
import Mathlib.Analysis.SpecialFunctions.Pow.Real
/-
C14 — review additions.  The property's own hypothesis, "at least degree+1 distinct abscissae", enters the
theorems here: it makes the normal matrix `VᵀV` non-singular (`distinct_imp_xtx_det_ne_zero`), so that over an
ordered field with exact `sqrt`/`abs` the fit is total, satisfies the normal equations, minimises the residual
(`poly_fit_total_distinct`) and reproduces polynomial data (`fit_reproduces_distinct`).
-/
namespace Cv.C14R
open Cv Cv.Poly Cv.C14 Cv.C14L Cv.C01Solve Cv.LA Finset

section
variable {F : Type} [Field F] [LinearOrder F] [IsStrictOrderedRing F] [Transc F] [BEq F] [LawfulBEq F] [Inhabited F]

/-- **distinct_imp_xtx_det_ne_zero.**  If the abscissae contain at least `p = degree+1` distinct values, the normal
matrix `VᵀV` of the `n × p` Vandermonde matrix is non-singular.  (`vᵀ(VᵀV)v = ‖Vv‖²`; `Vv = 0` says the polynomial
`Σ v_k X^k` of degree `< p` vanishes at `≥ p` distinct points, so `v = 0`.) -/
theorem distinct_imp_xtx_det_ne_zero (p : Nat) (x g : List F) (hp : 0 < p) (hp31 : p ≤ 2 ^ 31)
    (hd : p ≤ x.toFinset.card) (hg : xtx (vandermonde x p) x.length = some g) :
    (toMatrix p g).det ≠ 0 := by
  have hn : 0 < x.length := lt_of_lt_of_le hp (le_trans hd (List.toFinset_card_le x))
  obtain ⟨g', hg1, hgl, hg3, _⟩ := C05.xtx_spec (vandermonde x p) x.length p (vandermonde_length x p) hn
  have hgg : g' = g := by rw [hg] at hg1; exact (Option.some.inj hg1).symm
  subst hgg
  have hV : ∀ r k, r < x.length → k < p → (vandermonde x p)[r * p + k]! = x[r]! ^ k :=
    fun r k hr hk => (vandermonde_entry x p r k hp31 hr hk).2
  have hG : ∀ j k : Fin p, toMatrix p g' j k = ∑ i ∈ range x.length, x[i]! ^ (j : ℕ) * x[i]! ^ (k : ℕ) := by
    intro j k
    simp only [toMatrix]
    rw [← bang_eq_rd g' _ (by rw [hgl]; exact Mat.idx_lt j.2 k.2), hg3 j k j.2 k.2]
    exact Finset.sum_congr rfl fun r hr => by rw [hV r j (mem_range.mp hr) j.2, hV r k (mem_range.mp hr) k.2]
  intro hdet
  obtain ⟨v, hv0, hv⟩ := Matrix.exists_mulVec_eq_zero_iff.mpr hdet
  apply hv0
  -- the polynomial with coefficient vector `v`
  let q : Polynomial F := ∑ k : Fin p, Polynomial.C (v k) * Polynomial.X ^ (k : ℕ)
  have hq_eval : ∀ a : F, q.eval a = ∑ k : Fin p, v k * a ^ (k : ℕ) := by
    intro a
    simp only [q, Polynomial.eval_finsetSum, Polynomial.eval_mul, Polynomial.eval_C, Polynomial.eval_pow,
      Polynomial.eval_X]
  -- ‖V v‖² = vᵀ (VᵀV) v = 0
  have hquad : ∑ i ∈ range x.length, (q.eval x[i]!) ^ 2 = 0 := by
    have h1 : ∑ j : Fin p, v j * (toMatrix p g').mulVec v j = 0 := by
      rw [hv]; simp
    rw [← h1]
    simp only [Matrix.mulVec, dotProduct, hG, hq_eval, pow_two, Finset.sum_mul, Finset.mul_sum]
    rw [Finset.sum_comm]
    apply Finset.sum_congr rfl
    intro j _
    rw [Finset.sum_comm]
    apply Finset.sum_congr rfl
    intro k _
    apply Finset.sum_congr rfl
    intro i _
    ring
  have hroot : ∀ i, i < x.length → q.eval x[i]! = 0 := by
    intro i hi
    have := (Finset.sum_eq_zero_iff_of_nonneg (fun i _ => sq_nonneg (q.eval x[i]!))).mp hquad i (mem_range.mpr hi)
    exact pow_eq_zero_iff (two_ne_zero) |>.mp this
  have hq0 : q = 0 := by
    by_contra hne
    apply hne
    apply Polynomial.eq_zero_of_natDegree_lt_card_of_eval_eq_zero' q x.toFinset
    · intro a ha
      obtain ⟨i, hi, rfl⟩ := List.mem_iff_getElem.mp (List.mem_toFinset.mp ha)
      have := hroot i hi
      rwa [getElem!_pos x i hi] at this
    · have hdeg : q.degree < p := Polynomial.degree_sum_fin_lt v
      exact lt_of_lt_of_le ((Polynomial.natDegree_lt_iff_degree_lt hne).mpr hdeg) hd
  funext k
  have hc : q.coeff (k : ℕ) = v k := by
    simp only [q, Polynomial.finsetSum_coeff, Polynomial.coeff_C_mul_X_pow]
    rw [Finset.sum_eq_single k]
    · simp
    · intro b _ hb
      rw [if_neg]
      intro h
      exact hb (Fin.ext h.symm)
    · intro h; exact absurd (Finset.mem_univ k) h
  rw [← hc, hq0]
  simp

/-- **poly_fit_total_distinct.**  Polynomial regression, end to end, under the property's own hypothesis: over an
ordered field with exact `sqrt`/`abs`, for every data set with at least `p = degree+1` distinct abscissae, `fit` does
not panic, and the coefficients it returns satisfy the normal equations and minimise the residual sum of squares. -/
theorem poly_fit_total_distinct (habs : ∀ x : F, Transc.abs x = |x|) (hpos : ∀ x : F, 0 < x → 0 < Transc.sqrt x)
    (hs : ∀ x : F, 0 < x → Transc.sqrt x * Transc.sqrt x = x)
    (p : Nat) (x y : List F) (hp : 0 < p) (hp31 : p ≤ 2 ^ 31) (hxy : x.length = y.length)
    (hd : p ≤ x.toFinset.card) :
    ∃ c, Poly.fit p x y = some c ∧ c.length = p ∧
      (∀ j, j < p →
        ∑ k ∈ Finset.range p, (∑ i ∈ Finset.range x.length, x[i]! ^ j * x[i]! ^ k) * c[k]! =
          ∑ i ∈ Finset.range x.length, x[i]! ^ j * y[i]!) ∧
      ∀ c' : List F, c'.length = p → C14.rss x y c ≤ C14.rss x y c' :=
  poly_fit_total habs hpos hs p x y hp hp31 (lt_of_lt_of_le hp (le_trans hd (List.toFinset_card_le x))) hxy
    (fun g hg => distinct_imp_xtx_det_ne_zero p x g hp hp31 hd hg)

/-- **fit_reproduces_distinct.**  Data generated by a polynomial of that degree are reproduced, with no hypothesis on
the solver: at least `p` distinct abscissae and `yᵢ = p_{c₀}(xᵢ)` for all `i` give `fit p x y = some c₀`. -/
theorem fit_reproduces_distinct (habs : ∀ x : F, Transc.abs x = |x|) (hpos : ∀ x : F, 0 < x → 0 < Transc.sqrt x)
    (hs : ∀ x : F, 0 < x → Transc.sqrt x * Transc.sqrt x = x)
    (p : Nat) (x y c0 : List F) (hp : 0 < p) (hp31 : p ≤ 2 ^ 31) (hxy : x.length = y.length)
    (hd : p ≤ x.toFinset.card) (hc0 : c0.length = p)
    (hy : ∀ i, i < x.length → y[i]! = horner c0 x[i]!) :
    Poly.fit p x y = some c0 := by
  have hn : 0 < x.length := lt_of_lt_of_le hp (le_trans hd (List.toFinset_card_le x))
  obtain ⟨g, hg, hgl, _⟩ := C05.xtx_spec (vandermonde x p) x.length p (vandermonde_length x p) hn
  have hdet := distinct_imp_xtx_det_ne_zero p x g hp hp31 hd hg
  obtain ⟨ginv, hinv, _, _⟩ := invertMatrix_total habs hpos hs g p hgl (by omega) hdet
  obtain ⟨hsq, hpiv⟩ := regular_of_det habs hs g p hgl hdet
  exact C14.fit_reproduces p x y g ginv c0 hp hp31 hn hxy hg hinv
    (invertMatrix_isInverse hpos g ginv p hgl hinv hsq hpiv) hc0 hy

/-- Conversely the hypothesis is needed: with fewer than `p` distinct abscissae the normal matrix is singular
(two polynomials of degree `< p` agree on the data), here on the smallest case `x = (a, a)`, `p = 2`. -/
theorem repeated_abscissa_singular (a : F) (g : List F) (hg : xtx (vandermonde [a, a] 2) 2 = some g) :
    (toMatrix 2 g).det = 0 := by
  obtain ⟨g', hg1, hgl, hg3, _⟩ := C05.xtx_spec (vandermonde [a, a] 2) 2 2 (vandermonde_length [a, a] 2) (by norm_num)
  have hgg : g' = g := by
    rw [hg] at hg1; exact (Option.some.inj hg1).symm
  subst hgg
  have hV : ∀ r k, r < 2 → k < 2 → (vandermonde [a, a] 2)[r * 2 + k]! = a ^ k := by
    intro r k hr hk
    have := (vandermonde_entry [a, a] 2 r k (by norm_num) (by simpa using hr) hk).2
    rw [this]
    have hr' : r = 0 ∨ r = 1 := by omega
    rcases hr' with rfl | rfl <;> simp
  have e : ∀ j k : Nat, j < 2 → k < 2 → rd g' (j * 2 + k) = a ^ j * a ^ k + a ^ j * a ^ k := by
    intro j k hj hk
    rw [← bang_eq_rd g' _ (by rw [hgl]; exact Mat.idx_lt hj hk), hg3 j k hj hk]
    rw [Finset.sum_range_succ, Finset.sum_range_one, hV 0 j (by norm_num) hj, hV 0 k (by norm_num) hk,
      hV 1 j (by norm_num) hj, hV 1 k (by norm_num) hk]
  rw [Matrix.det_fin_two]
  simp only [toMatrix, Fin.val_zero, Fin.val_one]
  have e00 := e 0 0 (by norm_num) (by norm_num)
  have e01 := e 0 1 (by norm_num) (by norm_num)
  have e10 := e 1 0 (by norm_num) (by norm_num)
  have e11 := e 1 1 (by norm_num) (by norm_num)
  norm_num at e00 e01 e10 e11 ⊢
  rw [e00, e01, e10, e11]
  ring

end

/-! ## non-vacuity -/

section witnessQ

/-- exact rationals; `sqrt` is exact on the three Cholesky pivots 4, 100, 2304 taken below -/
local instance (priority := high) instTranscRatC14R : Cv.Transc ℚ where
  sqrt x := if x = 4 then 2 else if x = 100 then 10 else if x = 2304 then 48 else x
  exp x := x
  ln x := x
  pow x _ := x
  sin x := x
  cos x := x
  tan x := x
  abs x := |x|
  floor x := x
  ceil x := x

/-- degree 2 on `x = (−7, −1, 1, 7)`: normal matrix with pivots 4, 100, 2304 -/
def X3 : List ℚ := [-7, -1, 1, 7]
def Y3 : List ℚ := [3, 0, 1, -2]

theorem ex3_g : xtx (vandermonde X3 3) 4 = some [4, 0, 100, 0, 100, 0, 100, 0, 4804] := by decide +kernel
theorem ex3_inv : invertMatrix ([4, 0, 100, 0, 100, 0, 100, 0, 4804] : List ℚ) =
    some [1201 / 2304, 0, -25 / 2304, 0, 1 / 100, 0, -25 / 2304, 0, 1 / 2304] := by decide +kernel
theorem ex3_fit : fit 3 X3 Y3 = some [1 / 2, -17 / 50, 0] := by decide +kernel

theorem ex3_isInverse : IsInverse 3 ([4, 0, 100, 0, 100, 0, 100, 0, 4804] : List ℚ)
    [1201 / 2304, 0, -25 / 2304, 0, 1 / 100, 0, -25 / 2304, 0, 1 / 2304] := by
  refine ⟨rfl, ?_⟩
  intro i j hi hj
  have hi' : i = 0 ∨ i = 1 ∨ i = 2 := by omega
  have hj' : j = 0 ∨ j = 1 ∨ j = 2 := by omega
  rcases hi' with rfl | rfl | rfl <;> rcases hj' with rfl | rfl | rfl <;> norm_num [Finset.sum_range_succ]

/-- `fit_minimal`, `fit_orthogonal` instantiated at `p = 3` with every hypothesis discharged -/
example : ∃ c, fit 3 X3 Y3 = some c ∧ c.length = 3 ∧
    ∀ c' : List ℚ, c'.length = 3 →
      rss X3 Y3 c' = rss X3 Y3 c + ∑ i ∈ Finset.range X3.length, (horner c' X3[i]! - horner c X3[i]!) ^ 2 ∧
      rss X3 Y3 c ≤ rss X3 Y3 c' :=
  fit_minimal 3 X3 Y3 _ _ (by norm_num) (by norm_num) (by simp [X3]) rfl ex3_g ex3_inv ex3_isInverse

example : ∃ c, fit 3 X3 Y3 = some c ∧ c.length = 3 ∧
    ∀ j, j < 3 → ∑ i ∈ Finset.range X3.length, X3[i]! ^ j * (Y3[i]! - horner c X3[i]!) = 0 :=
  fit_orthogonal 3 X3 Y3 _ _ (by norm_num) (by norm_num) (by simp [X3]) rfl ex3_g ex3_inv ex3_isInverse

/-- `fit_reproduces` instantiated: responses of `1 + 2x + 3x²` on the same abscissae give back `[1, 2, 3]` -/
example : fit 3 X3 [134, 2, 6, 162] = some [1, 2, 3] :=
  fit_reproduces 3 X3 [134, 2, 6, 162] _ _ [1, 2, 3] (by norm_num) (by norm_num) (by simp [X3]) rfl ex3_g ex3_inv
    ex3_isInverse rfl (by
      intro i hi
      have hi' : i = 0 ∨ i = 1 ∨ i = 2 ∨ i = 3 := by simp [X3] at hi; omega
      rcases hi' with rfl | rfl | rfl | rfl <;> norm_num [horner, X3])

end witnessQ

section witnessR

/-- `Transc ℝ` with Mathlib's `Real.sqrt` and `|·|` (the only fields the solver uses) -/
noncomputable local instance (priority := high) instTranscRealC14R : Cv.Transc ℝ where
  sqrt := Real.sqrt
  exp := Real.exp
  ln := Real.log
  pow := Real.rpow
  sin := Real.sin
  cos := Real.cos
  tan := Real.tan
  abs x := |x|
  floor x := ⌊x⌋
  ceil x := ⌈x⌉

theorem exR_distinct : 2 ≤ ([0, 1, 2] : List ℝ).toFinset.card := by
  have hsub : ({0, 1} : Finset ℝ) ⊆ ([0, 1, 2] : List ℝ).toFinset := by
    intro a ha
    simp only [Finset.mem_insert, Finset.mem_singleton] at ha
    rcases ha with rfl | rfl <;> simp
  calc 2 = ({0, 1} : Finset ℝ).card := (Finset.card_pair (by norm_num)).symm
    _ ≤ _ := Finset.card_le_card hsub

/-- **`poly_fit_total_distinct` instantiated over `ℝ`** (exact `sqrt` is available there): every hypothesis discharged. -/
example : ∃ c, Poly.fit 2 ([0, 1, 2] : List ℝ) [1, 4, 4] = some c ∧ c.length = 2 ∧
      (∀ j, j < 2 →
        ∑ k ∈ Finset.range 2, (∑ i ∈ Finset.range 3, ([0, 1, 2] : List ℝ)[i]! ^ j * ([0, 1, 2] : List ℝ)[i]! ^ k) * c[k]! =
          ∑ i ∈ Finset.range 3, ([0, 1, 2] : List ℝ)[i]! ^ j * ([1, 4, 4] : List ℝ)[i]!) ∧
      ∀ c' : List ℝ, c'.length = 2 → C14.rss [0, 1, 2] [1, 4, 4] c ≤ C14.rss [0, 1, 2] [1, 4, 4] c' :=
  poly_fit_total_distinct (fun _ => rfl) (fun x hx => Real.sqrt_pos.mpr hx)
    (fun x hx => Real.mul_self_sqrt (le_of_lt hx)) 2 [0, 1, 2] [1, 4, 4] (by norm_num) (by norm_num) rfl exR_distinct

/-- **`fit_reproduces_distinct` instantiated over `ℝ`**: the line `1 + 2x` sampled at `0, 1, 2` is recovered. -/
example : Poly.fit 2 ([0, 1, 2] : List ℝ) [1, 3, 5] = some [1, 2] :=
  fit_reproduces_distinct (fun _ => rfl) (fun x hx => Real.sqrt_pos.mpr hx)
    (fun x hx => Real.mul_self_sqrt (le_of_lt hx)) 2 [0, 1, 2] [1, 3, 5] [1, 2] (by norm_num) (by norm_num) rfl
    exR_distinct rfl (by
      intro i hi
      have hi' : i = 0 ∨ i = 1 ∨ i = 2 := by simp at hi; omega
      rcases hi' with rfl | rfl | rfl <;> norm_num [horner])

end witnessR

end Cv.C14R
