import Compute.Model.Resample
import Compute.Lemmas.C19Draws
import Compute.Lemmas.C19Resample
/-
The resampling functions as functions of THE RUN'S OWN index stream: `bootstrap`, `shuffle`, `shuffle_two` are a
sequence of `DiscreteUniform(0, n-1)` draws (`Rng.drawN?`, each draw evaluated at the state left by the previous one)
followed by a total, draw-free post-processing (`pickAll`, `applySwaps`).  Hence a call returns exactly when each of its
own draws returns.  No Mathlib.
-/
namespace Cv.Resample
open Cv Cv.Rng

variable {α β : Type}

/-- The index sampler of an input of length `n`: `DiscreteUniform::new(0, n-1).sample()` (integer value). -/
abbrev idxDraw (fuel : Nat) (n : Nat) : Rng → Option (Int × Rng) :=
  DiscreteUniform.sampleInt fuel 0 ((n : Int) - 1)

/-- `data[i]` for every drawn index (total: an out-of-range index would be dropped; it never occurs). -/
def pickAll (data : Array α) (idxs : List Int) : List α := idxs.filterMap fun i => data[i.toNat]?

/-- Apply the drawn transpositions `(a₁, b₁), (a₂, b₂), …` in order. -/
def applySwaps (xs : Array α) : List Int → Array α
  | a :: b :: rest => applySwaps (xs.swapIfInBounds a.toNat b.toNat) rest
  | _ => xs

theorem pick_eq_pickAll {data : Array α} {idxs : List Int} (h : ∀ i ∈ idxs, i.toNat < data.size) :
    pick data idxs = some (pickAll data idxs) := by
  induction idxs with
  | nil => rfl
  | cons i is ih =>
    have hi := h i List.mem_cons_self
    have := ih (fun j hj => h j (List.mem_cons_of_mem _ hj))
    simp [pick, pickAll, this, Array.getElem?_eq_getElem hi] at *

theorem pickAll_length {data : Array α} {idxs : List Int} (h : ∀ i ∈ idxs, i.toNat < data.size) :
    (pickAll data idxs).length = idxs.length := (pick_spec (pick_eq_pickAll h)).1

theorem swapAt_eq {xs : Array α} {a b : Int} (ha : a.toNat < xs.size) (hb : b.toNat < xs.size) :
    swapAt xs a b = some (xs.swapIfInBounds a.toNat b.toNat) := by
  unfold swapAt Array.swapIfInBounds
  rw [dif_pos ⟨ha, hb⟩, dif_pos ha, dif_pos hb]

theorem size_swapIfInBounds (xs : Array α) (i j : Nat) : (xs.swapIfInBounds i j).size = xs.size := by
  unfold Array.swapIfInBounds
  split
  · split
    · simp
    · rfl
  · rfl

/-- `bootLoop` = `k` blocks of `n` index draws, then `pickAll` on each block. -/
theorem bootLoop_eq (fuel : Nat) (data : Array α) (k : Nat) (g : Rng) :
    bootLoop fuel data k g =
      (drawN? (drawN? (idxDraw fuel data.size) data.size) k g).map fun p => (p.1.map (pickAll data), p.2) := by
  induction k generalizing g with
  | zero => rfl
  | succ k ih =>
    rw [drawN?_succ]
    simp only [bootLoop, DiscreteUniform.sampleIntN]
    cases hs : drawN? (DiscreteUniform.sampleInt fuel 0 ((data.size : Int) - 1)) data.size g with
    | none => rfl
    | some p =>
      obtain ⟨_, hr⟩ := DiscreteUniform.sampleIntN_spec
        (show DiscreteUniform.sampleIntN fuel 0 ((data.size : Int) - 1) data.size g = some (p.1, p.2) from hs)
      have hp := pick_eq_pickAll (data := data) (idxs := p.1) (fun i hi => by have := hr i hi; omega)
      simp only [Option.bind_some, hp, ih]
      cases drawN? (drawN? (idxDraw fuel data.size) data.size) k p.2 with
      | none => rfl
      | some q => rfl

/-- `shuffleLoop` = `2k` index draws, then the transpositions they encode. -/
theorem shuffleLoop_eq (fuel : Nat) (hi : Int) (k : Nat) (xs : Array α) (g : Rng) (hsz : (xs.size : Int) = hi + 1) :
    shuffleLoop fuel hi k xs g =
      (drawN? (DiscreteUniform.sampleInt fuel 0 hi) (2 * k) g).map fun p => (applySwaps xs p.1, p.2) := by
  induction k generalizing xs g with
  | zero => rfl
  | succ k ih =>
    rw [show 2 * (k + 1) = (2 * k + 1) + 1 by omega, drawN?_succ]
    simp only [shuffleLoop]
    cases ha : DiscreteUniform.sampleInt fuel 0 hi g with
    | none => rfl
    | some pa =>
      simp only [Option.bind_some]
      rw [drawN?_succ]
      cases hb : DiscreteUniform.sampleInt fuel 0 hi pa.2 with
      | none => rfl
      | some pb =>
        have ra := DiscreteUniform.sampleInt_range (show DiscreteUniform.sampleInt fuel 0 hi g = some (pa.1, pa.2) from ha)
        have rb := DiscreteUniform.sampleInt_range (show DiscreteUniform.sampleInt fuel 0 hi pa.2 = some (pb.1, pb.2) from hb)
        have hsw := swapAt_eq (xs := xs) (a := pa.1) (b := pb.1) (by omega) (by omega)
        simp only [Option.bind_some, hsw]
        rw [ih _ _ (by rw [size_swapIfInBounds]; exact hsz)]
        cases drawN? (DiscreteUniform.sampleInt fuel 0 hi) (2 * k) pb.2 with
        | none => rfl
        | some q => rfl

/-- `shuffleTwoLoop` = `2k` index draws, then the SAME transpositions applied to both arrays. -/
theorem shuffleTwoLoop_eq (fuel : Nat) (hi : Int) (k : Nat) (xs : Array α) (ys : Array β) (g : Rng)
    (hx : (xs.size : Int) = hi + 1) (hy : (ys.size : Int) = hi + 1) :
    shuffleTwoLoop fuel hi k xs ys g =
      (drawN? (DiscreteUniform.sampleInt fuel 0 hi) (2 * k) g).map
        fun p => (applySwaps xs p.1, applySwaps ys p.1, p.2) := by
  induction k generalizing xs ys g with
  | zero => rfl
  | succ k ih =>
    rw [show 2 * (k + 1) = (2 * k + 1) + 1 by omega, drawN?_succ]
    simp only [shuffleTwoLoop]
    cases ha : DiscreteUniform.sampleInt fuel 0 hi g with
    | none => rfl
    | some pa =>
      simp only [Option.bind_some]
      rw [drawN?_succ]
      cases hb : DiscreteUniform.sampleInt fuel 0 hi pa.2 with
      | none => rfl
      | some pb =>
        have ra := DiscreteUniform.sampleInt_range (show DiscreteUniform.sampleInt fuel 0 hi g = some (pa.1, pa.2) from ha)
        have rb := DiscreteUniform.sampleInt_range (show DiscreteUniform.sampleInt fuel 0 hi pa.2 = some (pb.1, pb.2) from hb)
        have hsx := swapAt_eq (xs := xs) (a := pa.1) (b := pb.1) (by omega) (by omega)
        have hsy := swapAt_eq (xs := ys) (a := pa.1) (b := pb.1) (by omega) (by omega)
        simp only [Option.bind_some, hsx, hsy]
        rw [ih _ _ _ (by rw [size_swapIfInBounds]; exact hx) (by rw [size_swapIfInBounds]; exact hy)]
        cases drawN? (DiscreteUniform.sampleInt fuel 0 hi) (2 * k) pb.2 with
        | none => rfl
        | some q => rfl

end Cv.Resample
