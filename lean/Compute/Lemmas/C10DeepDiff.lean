import Compute.Lemmas.C10DeepTape
import Compute.Lemmas.C04Powi
import Compute.Lemmas.C09
import Mathlib.Analysis.Calculus.FDeriv.Add
import Mathlib.Analysis.Calculus.FDeriv.Mul
import Mathlib.Analysis.Calculus.FDeriv.Prod
import Mathlib.Analysis.Calculus.Deriv.Comp
import Mathlib.Analysis.Calculus.Deriv.Inv
import Mathlib.Analysis.Calculus.Deriv.ZPow
import Mathlib.Analysis.Calculus.Deriv.Pi
import Mathlib.Analysis.SpecialFunctions.ExpDeriv
import Mathlib.Analysis.SpecialFunctions.Trigonometric.Deriv
/-
C10 (deep) — layer B: over `ℝ` (`Transc ℝ` = Mathlib's `Real.exp`, `Real.sin`, `Real.cos`; the scoped
instance of `Lemmas/C09.lean`) the forward semantics `sStep` of layer A computes the value and the
Fréchet derivative of the program's real-valued function `denote prog n x?`, provided

* `NoConstDivVar prog`: no `÷` whose numerator is an `f64` and whose denominator is a `Var`
  (there the crate's weight is wrong — finding `reverse:f64-div-var-weight`),
* `InDomain`: at the point of evaluation every divisor is `≠ 0` and every base of a negative integer
  power is `≠ 0`,
* `PowiRange`: the `powi` exponents fit an `i32` (so that square-and-multiply is the integer power).
-/
namespace Cv.C10D
open Cv Cv.AD
open Cv.C09

set_option linter.unusedSectionVars false
set_option linter.unusedVariables false
set_option linter.unusedSimpArgs false

/-! ### the real-valued function denoted by a program -/

/-- points of the parameter space -/
abbrev Pt (n : Nat) := Fin n → ℝ

/-- textbook semantics of one instruction on a stack of functions `ℝⁿ → ℝ` -/
noncomputable def fStep (n : Nat) (x? : Option ℝ) (st : List (Pt n → ℝ)) :
    Op ℝ → Option (List (Pt n → ℝ))
  | .param i => if h : i < n then some ((fun v => v ⟨i, h⟩) :: st) else none
  | .const c => some ((fun _ => c) :: st)
  | .x => match x? with
    | some x => some ((fun _ => x) :: st)
    | none => none
  | .add => match st with
    | b :: a :: st => some ((fun v => a v + b v) :: st)
    | _ => none
  | .sub => match st with
    | b :: a :: st => some ((fun v => a v - b v) :: st)
    | _ => none
  | .mul => match st with
    | b :: a :: st => some ((fun v => a v * b v) :: st)
    | _ => none
  | .div => match st with
    | b :: a :: st => some ((fun v => a v / b v) :: st)
    | _ => none
  | .neg => match st with
    | a :: st => some ((fun v => -a v) :: st)
    | _ => none
  | .powi k => match st with
    | a :: st => some ((fun v => a v ^ k) :: st)
    | _ => none
  | .exp => match st with
    | a :: st => some ((fun v => Real.exp (a v)) :: st)
    | _ => none
  | .sin => match st with
    | a :: st => some ((fun v => Real.sin (a v)) :: st)
    | _ => none

noncomputable def fRun (n : Nat) (x? : Option ℝ) :
    List (Op ℝ) → List (Pt n → ℝ) → Option (List (Pt n → ℝ))
  | [], st => some st
  | o :: os, st =>
    match fStep n x? st o with
    | none => none
    | some st => fRun n x? os st

/-- **the real-valued function of an RPN program** in `n` parameters (and the data point `x?`):
`none` if the program is ill-formed (stack underflow, parameter index `≥ n`, result not a single
cell). -/
noncomputable def denote (prog : List (Op ℝ)) (n : Nat) (x? : Option ℝ) : Option (Pt n → ℝ) :=
  match fRun n x? prog [] with
  | some [f] => some f
  | _ => none

/-- domain of differentiability of one instruction at the point `v0` -/
def domStep {n : Nat} (v0 : Pt n) (st : List (Pt n → ℝ)) : Op ℝ → Prop
  | .div => match st with
    | b :: _ :: _ => b v0 ≠ 0
    | _ => True
  | .powi k => match st with
    | a :: _ => a v0 ≠ 0 ∨ 0 ≤ k
    | _ => True
  | _ => True

def DomRun {n : Nat} (x? : Option ℝ) (v0 : Pt n) : List (Op ℝ) → List (Pt n → ℝ) → Prop
  | [], _ => True
  | o :: os, st => domStep v0 st o ∧
    match fStep n x? st o with
    | none => True
    | some st' => DomRun x? v0 os st'

/-- **the evaluation at `v0` stays in the domain of differentiability**: every divisor is `≠ 0`,
every base of a negative integer power is `≠ 0`. -/
def InDomain (prog : List (Op ℝ)) (n : Nat) (x? : Option ℝ) (v0 : Pt n) : Prop :=
  DomRun x? v0 prog []

/-! ### `NoConstDivVar`: the static exclusion of `f64 / Var` -/
section kinds
variable {α : Type}

/-- kind of the result (`true` = `Var`, `false` = `f64`) on a stack of kinds -/
def kStep : List Bool → Op α → List Bool
  | ks, .param _ => true :: ks
  | ks, .const _ => false :: ks
  | ks, .x => false :: ks
  | kb :: ka :: ks, .add => (ka || kb) :: ks
  | kb :: ka :: ks, .sub => (ka || kb) :: ks
  | kb :: ka :: ks, .mul => (ka || kb) :: ks
  | kb :: ka :: ks, .div => (ka || kb) :: ks
  | ks, .neg => ks
  | ks, .powi _ => ks
  | ks, .exp => ks
  | ks, .sin => ks
  | _, _ => []

/-- the instruction is a `÷` of an `f64` numerator by a `Var` denominator -/
def badDiv : List Bool → Op α → Bool
  | kb :: ka :: _, .div => !ka && kb
  | _, _ => false

def ncdv : List Bool → List (Op α) → Bool
  | _, [] => true
  | ks, o :: os => !badDiv ks o && ncdv (kStep ks o) os

/-- **no `f64 / Var` node** is ever created by the program (decidable, static: the kind of a stack
cell only depends on the program text). -/
def NoConstDivVar (prog : List (Op α)) : Prop := ncdv [] prog = true

instance (prog : List (Op α)) : Decidable (NoConstDivVar prog) := by
  unfold NoConstDivVar; infer_instance

/-- exponents of `powi` fit an `i32` and `n - 1` does not overflow -/
def powiOK : Op α → Prop
  | .powi k => -2147483648 < k ∧ k ≤ 2147483647
  | _ => True

def PowiRange (prog : List (Op α)) : Prop := ∀ o ∈ prog, powiOK o

end kinds

def isV : SItem ℝ → Bool
  | .c _ => false
  | .v _ _ => true

theorem kinds_step {θ : List ℝ} {x? : Option ℝ} {ss ss' : List (SItem ℝ)} (o : Op ℝ)
    (h : sStep θ x? ss o = some ss') : ss'.map isV = kStep (ss.map isV) o := by
  cases o with
  | param i =>
    simp only [sStep] at h
    split at h
    · simp only [Option.some.injEq] at h; subst h; rfl
    · exact absurd h (by simp)
  | const c => simp only [sStep, Option.some.injEq] at h; subst h; rfl
  | x =>
    simp only [sStep] at h
    split at h
    · simp only [Option.some.injEq] at h; subst h; rfl
    · exact absurd h (by simp)
  | add =>
    rcases ss with _ | ⟨sb, _ | ⟨sa, ss0⟩⟩
    · simp [sStep] at h
    · simp [sStep] at h
    simp only [sStep, Option.some.injEq] at h; subst h
    cases sa <;> cases sb <;> rfl
  | sub =>
    rcases ss with _ | ⟨sb, _ | ⟨sa, ss0⟩⟩
    · simp [sStep] at h
    · simp [sStep] at h
    simp only [sStep, Option.some.injEq] at h; subst h
    cases sa <;> cases sb <;> rfl
  | mul =>
    rcases ss with _ | ⟨sb, _ | ⟨sa, ss0⟩⟩
    · simp [sStep] at h
    · simp [sStep] at h
    simp only [sStep, Option.some.injEq] at h; subst h
    cases sa <;> cases sb <;> rfl
  | div =>
    rcases ss with _ | ⟨sb, _ | ⟨sa, ss0⟩⟩
    · simp [sStep] at h
    · simp [sStep] at h
    simp only [sStep, Option.some.injEq] at h; subst h
    cases sa <;> cases sb <;> rfl
  | neg =>
    rcases ss with _ | ⟨sa, ss0⟩
    · simp [sStep] at h
    simp only [sStep, Option.some.injEq] at h; subst h
    cases sa <;> rfl
  | powi k =>
    rcases ss with _ | ⟨sa, ss0⟩
    · simp [sStep] at h
    simp only [sStep, Option.some.injEq] at h; subst h
    cases sa <;> rfl
  | exp =>
    rcases ss with _ | ⟨sa, ss0⟩
    · simp [sStep] at h
    simp only [sStep, Option.some.injEq] at h; subst h
    cases sa <;> rfl
  | sin =>
    rcases ss with _ | ⟨sa, ss0⟩
    · simp [sStep] at h
    simp only [sStep, Option.some.injEq] at h; subst h
    cases sa <;> rfl

/-! ### differentiability bookkeeping -/
section diff
variable {n : Nat} (v0 : Pt n)

/-- `F` has value `val` at `v0` and a Fréchet derivative there whose matrix row is `d` -/
def Diff (F : Pt n → ℝ) (val : ℝ) (d : Fin n → ℝ) : Prop :=
  F v0 = val ∧ ∃ F' : Pt n →L[ℝ] ℝ, HasFDerivAt F F' v0 ∧ ∀ j : Fin n, F' (Pi.single j 1) = d j

variable {v0}

theorem Diff.congr {F : Pt n → ℝ} {val val' : ℝ} {d d' : Fin n → ℝ} (h : Diff v0 F val d)
    (hv : val = val') (hd : ∀ j, d j = d' j) : Diff v0 F val' d' := by
  obtain ⟨h1, F', h2, h3⟩ := h
  exact ⟨by rw [h1, hv], F', h2, fun j => by rw [h3 j, hd j]⟩

theorem D_const (a : ℝ) : Diff v0 (fun _ => a) a (fun _ => 0) :=
  ⟨rfl, 0, hasFDerivAt_const a v0, fun _ => rfl⟩

theorem D_proj (i : Fin n) : Diff v0 (fun v => v i) (v0 i) (fun j => if (j : Nat) = i then 1 else 0) := by
  refine ⟨rfl, ContinuousLinearMap.proj i, hasFDerivAt_apply i v0, fun j => ?_⟩
  show (Pi.single j (1 : ℝ) : Pt n) i = _
  rw [Pi.single_apply]
  by_cases h : i = j
  · subst h; simp
  · have : ¬ (j : Nat) = (i : Nat) := fun e => h (Fin.ext e.symm)
    simp [h, this]

theorem D_add {Fa Fb : Pt n → ℝ} {a b : ℝ} {da db : Fin n → ℝ} (ha : Diff v0 Fa a da)
    (hb : Diff v0 Fb b db) : Diff v0 (fun v => Fa v + Fb v) (a + b) (fun j => da j + db j) := by
  obtain ⟨a1, Fa', a2, a3⟩ := ha
  obtain ⟨b1, Fb', b2, b3⟩ := hb
  exact ⟨by simp only [a1, b1], Fa' + Fb', a2.add b2, fun j => by simp [a3 j, b3 j]⟩

theorem D_sub {Fa Fb : Pt n → ℝ} {a b : ℝ} {da db : Fin n → ℝ} (ha : Diff v0 Fa a da)
    (hb : Diff v0 Fb b db) : Diff v0 (fun v => Fa v - Fb v) (a - b) (fun j => da j - db j) := by
  obtain ⟨a1, Fa', a2, a3⟩ := ha
  obtain ⟨b1, Fb', b2, b3⟩ := hb
  exact ⟨by simp only [a1, b1], Fa' - Fb', a2.sub b2, fun j => by simp [a3 j, b3 j]⟩

theorem D_neg {Fa : Pt n → ℝ} {a : ℝ} {da : Fin n → ℝ} (ha : Diff v0 Fa a da) :
    Diff v0 (fun v => -Fa v) (-a) (fun j => -da j) := by
  obtain ⟨a1, Fa', a2, a3⟩ := ha
  exact ⟨by simp only [a1], -Fa', a2.neg, fun j => by simp [a3 j]⟩

theorem D_mul {Fa Fb : Pt n → ℝ} {a b : ℝ} {da db : Fin n → ℝ} (ha : Diff v0 Fa a da)
    (hb : Diff v0 Fb b db) :
    Diff v0 (fun v => Fa v * Fb v) (a * b) (fun j => b * da j + a * db j) := by
  obtain ⟨a1, Fa', a2, a3⟩ := ha
  obtain ⟨b1, Fb', b2, b3⟩ := hb
  refine ⟨by simp only [a1, b1], Fa v0 • Fb' + Fb v0 • Fa', a2.mul b2, fun j => ?_⟩
  simp [a3 j, b3 j, a1, b1]; ring

theorem D_comp {Fa : Pt n → ℝ} {a : ℝ} {da : Fin n → ℝ} (ha : Diff v0 Fa a da) (φ : ℝ → ℝ) (φ' : ℝ)
    (hφ : HasDerivAt φ φ' a) : Diff v0 (fun v => φ (Fa v)) (φ a) (fun j => φ' * da j) := by
  obtain ⟨a1, Fa', a2, a3⟩ := ha
  subst a1
  refine ⟨rfl, φ' • Fa', hφ.comp_hasFDerivAt v0 a2, fun j => ?_⟩
  simp [a3 j]

theorem D_div {Fa Fb : Pt n → ℝ} {a b : ℝ} {da db : Fin n → ℝ} (ha : Diff v0 Fa a da)
    (hb : Diff v0 Fb b db) (hb0 : b ≠ 0) :
    Diff v0 (fun v => Fa v / Fb v) (a * (1 / b))
      (fun j => (1 / b) * da j + a * (((-1) / b ^ 2) * db j)) := by
  have hinv := D_comp hb (fun y => y⁻¹) _ (hasDerivAt_inv hb0)
  have := D_mul ha hinv
  have e : (fun v => Fa v / Fb v) = fun v => Fa v * (Fb v)⁻¹ := by
    funext v; rw [div_eq_mul_inv]
  rw [e]
  refine this.congr (by rw [one_div]) (fun j => ?_)
  simp only [one_div, neg_div]
  try ring

end diff

/-! ### semantic cell vs. real function -/
section brel
variable {n : Nat} (v0 : Pt n)

/-- the semantic cell `s` (at the point `v0`) describes the function `F`: constants are constant
functions, `Var`s carry the value and the derivative row of `F` at `v0` -/
def BRel : SItem ℝ → (Pt n → ℝ) → Prop
  | .c a, F => F = fun _ => a
  | .v val d, F => Diff v0 F val (fun j => d j)

def BStack : List (SItem ℝ) → List (Pt n → ℝ) → Prop
  | [], [] => True
  | s :: ss, F :: Fs => BRel v0 s F ∧ BStack ss Fs
  | [], _ :: _ => False
  | _ :: _, [] => False

def sval : SItem ℝ → ℝ
  | .c a => a
  | .v val _ => val

def sd : SItem ℝ → Nat → ℝ
  | .c _ => fun _ => 0
  | .v _ d => d

variable {v0}

theorem brel_diff {s : SItem ℝ} {F : Pt n → ℝ} (h : BRel v0 s F) :
    Diff v0 F (sval s) (fun j => sd s j) := by
  cases s with
  | c a => simp only [BRel] at h; subst h; exact D_const a
  | v val d => exact h

theorem bstack_cons {s : SItem ℝ} {F : Pt n → ℝ} {ss : List (SItem ℝ)} {Fs : List (Pt n → ℝ)}
    (h1 : BRel v0 s F) (h2 : BStack v0 ss Fs) : BStack v0 (s :: ss) (F :: Fs) := ⟨h1, h2⟩

theorem bstack_map {ss : List (SItem ℝ)} {Fs : List (Pt n → ℝ)} (h : BStack v0 ss Fs) :
    ss.length = Fs.length := by
  induction ss generalizing Fs with
  | nil => cases Fs with
    | nil => rfl
    | cons _ _ => exact h.elim
  | cons s ss ih => cases Fs with
    | nil => exact h.elim
    | cons F Fs => simp [ih h.2]

end brel

theorem powi_two (b : ℝ) : powi b 2 = b ^ 2 := by
  rw [C04.powi_eq_zpow b 2 (by decide)]; norm_cast

/-- **Layer B, one instruction.** -/
theorem sStep_diff {θ : List ℝ} {x? : Option ℝ} {ss ss' : List (SItem ℝ)}
    {Fs : List (Pt θ.length → ℝ)} (o : Op ℝ)
    (hss : BStack (fun i : Fin θ.length => θ[i]) ss Fs) (hs : sStep θ x? ss o = some ss')
    (hbad : badDiv (ss.map isV) o = false) (hpow : powiOK o)
    (hdom : domStep (fun i : Fin θ.length => θ[i]) Fs o) :
    ∃ Fs', fStep θ.length x? Fs o = some Fs' ∧ BStack (fun i : Fin θ.length => θ[i]) ss' Fs' := by
  cases o with
  | param i =>
    simp only [sStep] at hs
    split at hs
    next p hp =>
      simp only [Option.some.injEq] at hs; subst hs
      obtain ⟨hi, rfl⟩ := List.getElem?_eq_some_iff.mp hp
      refine ⟨(fun v => v ⟨i, hi⟩) :: Fs, by simp only [fStep, dif_pos hi], bstack_cons ?_ hss⟩
      exact D_proj (v0 := fun i : Fin θ.length => θ[i]) ⟨i, hi⟩
    · exact absurd hs (by simp)
  | const c =>
    simp only [sStep, Option.some.injEq] at hs; subst hs
    exact ⟨_, rfl, bstack_cons rfl hss⟩
  | x =>
    cases x? with
    | none => simp [sStep] at hs
    | some x =>
      simp only [sStep, Option.some.injEq] at hs; subst hs
      exact ⟨_, rfl, bstack_cons rfl hss⟩
  | add =>
    rcases ss with _ | ⟨sb, _ | ⟨sa, ss0⟩⟩
    · simp [sStep] at hs
    · simp [sStep] at hs
    rcases Fs with _ | ⟨Fb, _ | ⟨Fa, Fs0⟩⟩
    · exact hss.elim
    · exact hss.2.elim
    obtain ⟨hb, ha, hrest⟩ := hss
    simp only [sStep, Option.some.injEq] at hs; subst hs
    refine ⟨_, rfl, bstack_cons ?_ hrest⟩
    have hD := D_add (brel_diff ha) (brel_diff hb)
    cases sa <;> cases sb
    · simp only [BRel] at ha hb; subst ha hb; rfl
    all_goals exact hD.congr (by simp only [sval]; try ring) (fun j => by simp only [sd, sval]; try ring)
  | sub =>
    rcases ss with _ | ⟨sb, _ | ⟨sa, ss0⟩⟩
    · simp [sStep] at hs
    · simp [sStep] at hs
    rcases Fs with _ | ⟨Fb, _ | ⟨Fa, Fs0⟩⟩
    · exact hss.elim
    · exact hss.2.elim
    obtain ⟨hb, ha, hrest⟩ := hss
    simp only [sStep, Option.some.injEq] at hs; subst hs
    refine ⟨_, rfl, bstack_cons ?_ hrest⟩
    have hD := D_sub (brel_diff ha) (brel_diff hb)
    cases sa <;> cases sb
    · simp only [BRel] at ha hb; subst ha hb; rfl
    all_goals exact hD.congr (by simp only [sval]; try ring) (fun j => by simp only [sd, sval]; try ring)
  | mul =>
    rcases ss with _ | ⟨sb, _ | ⟨sa, ss0⟩⟩
    · simp [sStep] at hs
    · simp [sStep] at hs
    rcases Fs with _ | ⟨Fb, _ | ⟨Fa, Fs0⟩⟩
    · exact hss.elim
    · exact hss.2.elim
    obtain ⟨hb, ha, hrest⟩ := hss
    simp only [sStep, Option.some.injEq] at hs; subst hs
    refine ⟨_, rfl, bstack_cons ?_ hrest⟩
    have hD := D_mul (brel_diff ha) (brel_diff hb)
    cases sa <;> cases sb
    · simp only [BRel] at ha hb; subst ha hb; rfl
    all_goals exact hD.congr (by simp only [sval]; try ring) (fun j => by simp only [sd, sval]; try ring)
  | div =>
    rcases ss with _ | ⟨sb, _ | ⟨sa, ss0⟩⟩
    · simp [sStep] at hs
    · simp [sStep] at hs
    rcases Fs with _ | ⟨Fb, _ | ⟨Fa, Fs0⟩⟩
    · exact hss.elim
    · exact hss.2.elim
    obtain ⟨hb, ha, hrest⟩ := hss
    simp only [sStep, Option.some.injEq] at hs; subst hs
    refine ⟨_, rfl, bstack_cons ?_ hrest⟩
    have hb0 : sval sb ≠ 0 := by
      have := (brel_diff hb).1
      rw [← this]; exact hdom
    have hD := D_div (brel_diff ha) (brel_diff hb) hb0
    cases sa <;> cases sb
    · simp only [BRel] at ha hb; subst ha hb; rfl
    · exact absurd hbad (by simp [badDiv, isV])
    all_goals
      exact hD.congr (by simp only [sval])
        (fun j => by simp only [sd, sval, powi_two]; try ring)
  | neg =>
    rcases ss with _ | ⟨sa, ss0⟩
    · simp [sStep] at hs
    rcases Fs with _ | ⟨Fa, Fs0⟩
    · exact hss.elim
    obtain ⟨ha, hrest⟩ := hss
    simp only [sStep, Option.some.injEq] at hs; subst hs
    refine ⟨_, rfl, bstack_cons ?_ hrest⟩
    have hD := D_neg (brel_diff ha)
    cases sa
    · simp only [BRel] at ha; subst ha; rfl
    · exact hD.congr (by simp only [sval]; ring) (fun j => by simp only [sd, sval]; try ring)
  | powi k =>
    rcases ss with _ | ⟨sa, ss0⟩
    · simp [sStep] at hs
    rcases Fs with _ | ⟨Fa, Fs0⟩
    · exact hss.elim
    obtain ⟨ha, hrest⟩ := hss
    simp only [sStep, Option.some.injEq] at hs; subst hs
    refine ⟨_, rfl, bstack_cons ?_ hrest⟩
    obtain ⟨hk1, hk2⟩ : -2147483648 < k ∧ k ≤ 2147483647 := hpow
    have e1 : ∀ a : ℝ, powi a k = a ^ k := fun a => C04.powi_eq_zpow a k (by omega)
    have e2 : ∀ a : ℝ, powi a (k - 1) = a ^ (k - 1) := fun a => C04.powi_eq_zpow a (k - 1) (by omega)
    have ha0 : sval sa ≠ 0 ∨ 0 ≤ k := by
      have := (brel_diff ha).1
      rw [← this]; exact hdom
    have hD := D_comp (brel_diff ha) (fun y => y ^ k) _ (hasDerivAt_zpow k (sval sa) ha0)
    cases sa
    · simp only [BRel] at ha; subst ha
      show _ = _
      funext v; simp only [e1]
    · exact hD.congr (by simp only [sval, e1]) (fun j => by simp only [sd, sval, e2])
  | exp =>
    rcases ss with _ | ⟨sa, ss0⟩
    · simp [sStep] at hs
    rcases Fs with _ | ⟨Fa, Fs0⟩
    · exact hss.elim
    obtain ⟨ha, hrest⟩ := hss
    simp only [sStep, Option.some.injEq] at hs; subst hs
    refine ⟨_, rfl, bstack_cons ?_ hrest⟩
    have hD := D_comp (brel_diff ha) Real.exp _ (Real.hasDerivAt_exp (sval sa))
    cases sa
    · simp only [BRel] at ha; subst ha; rfl
    · exact hD.congr rfl (fun j => rfl)
  | sin =>
    rcases ss with _ | ⟨sa, ss0⟩
    · simp [sStep] at hs
    rcases Fs with _ | ⟨Fa, Fs0⟩
    · exact hss.elim
    obtain ⟨ha, hrest⟩ := hss
    simp only [sStep, Option.some.injEq] at hs; subst hs
    refine ⟨_, rfl, bstack_cons ?_ hrest⟩
    have hD := D_comp (brel_diff ha) Real.sin _ (Real.hasDerivAt_sin (sval sa))
    cases sa
    · simp only [BRel] at ha; subst ha; rfl
    · exact hD.congr rfl (fun j => rfl)

theorem sRun_diff {θ : List ℝ} {x? : Option ℝ} :
    ∀ (prog : List (Op ℝ)) {ss ss' : List (SItem ℝ)} {Fs : List (Pt θ.length → ℝ)},
      BStack (fun i : Fin θ.length => θ[i]) ss Fs → sRun θ x? prog ss = some ss' →
      ncdv (ss.map isV) prog = true → PowiRange prog →
      DomRun x? (fun i : Fin θ.length => θ[i]) prog Fs →
      ∃ Fs', fRun θ.length x? prog Fs = some Fs' ∧ BStack (fun i : Fin θ.length => θ[i]) ss' Fs'
  | [], ss, ss', Fs, hss, hs, _, _, _ => by
    simp only [sRun, Option.some.injEq] at hs; subst hs
    exact ⟨Fs, rfl, hss⟩
  | o :: os, ss, ss', Fs, hss, hs, hk, hp, hd => by
    simp only [sRun] at hs
    cases h1 : sStep θ x? ss o with
    | none => simp [h1] at hs
    | some ss1 =>
      simp only [h1] at hs
      simp only [ncdv, Bool.and_eq_true, Bool.not_eq_true'] at hk
      obtain ⟨Fs1, hf1, hss1⟩ := sStep_diff o hss h1 hk.1 (hp o (List.mem_cons_self ..)) hd.1
      have hd2 := hd.2
      simp only [hf1] at hd2
      have hk2 := hk.2
      rw [← kinds_step o h1] at hk2
      obtain ⟨Fs', hf', hss'⟩ :=
        sRun_diff os hss1 hs hk2 (fun o ho => hp o (List.mem_cons_of_mem _ ho)) hd2
      exact ⟨Fs', by simp only [fRun, hf1]; exact hf', hss'⟩

/-- a continuous linear functional on `ℝⁿ` is the sum of its values on the standard basis -/
theorem clm_eq_sum {n : Nat} (F' : Pt n →L[ℝ] ℝ) :
    F' = ∑ j : Fin n, F' (Pi.single j 1) • ContinuousLinearMap.proj (R := ℝ) (φ := fun _ : Fin n => ℝ) j := by
  ext v
  have := LinearMap.pi_apply_eq_sum_univ (F'.toLinearMap) v
  simp only [ContinuousLinearMap.coe_coe] at this
  rw [this]
  simp only [FunLike.coe_sum, FunLike.coe_smul, Finset.sum_apply,
    Pi.smul_apply, ContinuousLinearMap.proj_apply, smul_eq_mul]
  apply Finset.sum_congr rfl
  intro i _
  have : (fun j => if i = j then (1 : ℝ) else 0) = (Pi.single i 1 : Pt n) := by
    funext j; rw [Pi.single_apply]; by_cases h : i = j <;> simp [h, eq_comm]
  rw [this, mul_comm]

/-- the linear functional with matrix row `g` -/
noncomputable def gradCLM (n : Nat) (g : List ℝ) : Pt n →L[ℝ] ℝ :=
  ∑ j : Fin n, g.getD j 0 • ContinuousLinearMap.proj (R := ℝ) (φ := fun _ : Fin n => ℝ) j

/-- **Layer B, headline**: if the forward semantics returns `(val, d)` at `θ` then the program denotes
a function `f` with `f θ = val`, Fréchet-differentiable at `θ` with derivative row `d`. -/
theorem sEval_diff (prog : List (Op ℝ)) (θ : List ℝ) (x? : Option ℝ) (val : ℝ) (d : Nat → ℝ)
    (hs : sEval prog θ x? = some (val, d)) (hN : NoConstDivVar prog) (hP : PowiRange prog)
    (hD : InDomain prog θ.length x? (fun i : Fin θ.length => θ[i])) :
    ∃ f, denote prog θ.length x? = some f ∧
      Diff (fun i : Fin θ.length => θ[i]) f val (fun j => d j) := by
  unfold sEval at hs
  split at hs
  next hrun =>
    simp only [Option.some.injEq, Prod.mk.injEq] at hs
    obtain ⟨rfl, rfl⟩ := hs
    obtain ⟨Fs', hf, hss⟩ := sRun_diff (x? := x?) prog
      (show BStack (fun i : Fin θ.length => θ[i]) [] [] from trivial) hrun hN hP hD
    rcases Fs' with _ | ⟨f, _ | ⟨f2, Fs2⟩⟩
    · exact hss.elim
    · exact ⟨f, by simp [denote, hf], hss.1⟩
    · exact hss.2.elim
  next => exact absurd hs (by simp)

end Cv.C10D
