import Compute.Model.DistPdf
import Compute.Lemmas.C04Powi
import Mathlib.Analysis.SpecialFunctions.Pow.Real
import Mathlib.Analysis.SpecialFunctions.Gamma.Basic
import Mathlib.Analysis.SpecialFunctions.Trigonometric.Basic
import Mathlib.NumberTheory.Harmonic.EulerMascheroni
import Mathlib.Tactic.Ring
import Mathlib.Tactic.Linarith
import Mathlib.Tactic.FieldSimp
import Mathlib.Tactic.Positivity
import Mathlib.Data.NNReal.Defs
/-
Helper material for C02: the real-number instance of the scalar interface, the ideal special functions over `ℝ`
(`realFns`), `powi` as a power, and the Gauss sums used for the discrete uniform law.
-/
namespace Cv.C02
open Cv Cv.Dist

/-- `Transc ℝ`: Mathlib's real functions (`pow` is `Real.rpow`). -/
noncomputable scoped instance instTranscReal : Transc ℝ where
  sqrt := Real.sqrt
  exp := Real.exp
  ln := Real.log
  pow := fun x y => x ^ y
  sin := Real.sin
  cos := Real.cos
  tan := Real.tan
  abs := fun x => |x|
  floor := fun x => (⌊x⌋ : ℝ)
  ceil := fun x => (⌈x⌉ : ℝ)

/-- The special functions the densities are parametrised by, in exact arithmetic: `π`, Euler's `Γ`, `ln Γ`,
`ln(1+x)`, the Euler–Mascheroni constant; `erf` stays a parameter (Mathlib has no error function). -/
noncomputable def realFns (erf : ℝ → ℝ) : Fns ℝ where
  pi := Real.pi
  gamma := Real.Gamma
  lnGamma := fun x => Real.log (Real.Gamma x)
  erf := erf
  ln1p := fun x => Real.log (1 + x)
  euler := Real.eulerMascheroniConstant

@[simp] theorem transc_sqrt (x : ℝ) : Transc.sqrt x = Real.sqrt x := rfl
@[simp] theorem transc_exp (x : ℝ) : Transc.exp x = Real.exp x := rfl
@[simp] theorem transc_ln (x : ℝ) : Transc.ln x = Real.log x := rfl
@[simp] theorem transc_pow (x y : ℝ) : Transc.pow x y = x ^ y := rfl

@[simp] theorem two_real : (Dist.two : ℝ) = 2 := by simp [Dist.two]
@[simp] theorem half_real : (Dist.half : ℝ) = 1 / 2 := by simp [Dist.half]

/-- `x.powi(2)` is the square. -/
theorem powi_two {α : Type} [Field α] (x : α) : powi x 2 = x ^ 2 := by
  have := Cv.C04.powi_eq_zpow x 2 (by decide)
  rw [this]; norm_cast

/-- `x.powi(k)` for a `usize` `k < 2⁶⁴`. -/
theorem powi_nat {α : Type} [Field α] (x : α) (k : Nat) (h : k < 2 ^ 64) : powi x (k : Int) = x ^ k := by
  have := Cv.C04.powi_eq_zpow x (k : Int) (by simpa using h)
  rw [this]; norm_cast

/-- `σ²` as a non-negative real (the variance argument of Mathlib's Gaussian). -/
noncomputable def sqNN (σ : ℝ) : NNReal := ⟨σ ^ 2, sq_nonneg σ⟩

@[simp] theorem coe_sqNN (σ : ℝ) : ((sqNN σ : NNReal) : ℝ) = σ ^ 2 := rfl

theorem sqNN_ne_zero {σ : ℝ} (hσ : 0 < σ) : sqNN σ ≠ 0 := by
  intro h
  have : σ ^ 2 = 0 := by rw [← coe_sqNN, h]; rfl
  have : σ = 0 := by simpa using this
  exact hσ.ne' this

/-- Gauss: `Σ_{i<n+1} i = n(n+1)/2`. -/
theorem sum_range_id (n : ℕ) : ∑ i ∈ Finset.range (n + 1), (i : ℝ) = n * (n + 1) / 2 := by
  induction n with
  | zero => simp
  | succ k ih => rw [Finset.sum_range_succ, ih]; push_cast; ring

/-- `Σ_{i<n+1} i² = n(n+1)(2n+1)/6`. -/
theorem sum_range_sq (n : ℕ) : ∑ i ∈ Finset.range (n + 1), (i : ℝ) ^ 2 = n * (n + 1) * (2 * n + 1) / 6 := by
  induction n with
  | zero => simp
  | succ k ih => rw [Finset.sum_range_succ, ih]; push_cast; ring

/-- `exp (ln Γ(n+1)) = n!` for the ideal log-gamma: the hypothesis of the log-space pmf theorems holds for `realFns`. -/
theorem realFns_lnGamma_factorial (erf : ℝ → ℝ) (n : ℕ) :
    Real.exp ((realFns erf).lnGamma ((n : ℝ) + 1)) = (n.factorial : ℝ) := by
  simp only [realFns]
  rw [Real.Gamma_nat_eq_factorial, Real.exp_log]
  exact_mod_cast Nat.factorial_pos n

/-- Hypothesis of the log-space density theorems (Gamma, Beta, ChiSquared since F47–F49): the `ln_gamma` the code calls
exponentiates to Euler's `Γ` on the positive reals.  How well the Lanczos `ln_gamma` satisfies it is C09's accuracy property. -/
def LnGammaOK (F : Fns ℝ) : Prop := ∀ z : ℝ, 0 < z → Real.exp (F.lnGamma z) = Real.Gamma z

/-- The ideal special functions satisfy it. -/
theorem realFns_lnGammaOK (erf : ℝ → ℝ) : LnGammaOK (realFns erf) := by
  intro z hz
  simp only [realFns]
  exact Real.exp_log (Real.Gamma_pos_of_pos hz)

/-- `xlogy c x = c · log x` over `ℝ` (the `c == 0` branch returns `0 = 0 · log x`). -/
theorem xlogy_real (c x : ℝ) : Dist.xlogy c x = c * Real.log x := by
  unfold Dist.xlogy
  by_cases h : c = 0 <;> simp [h]

/-- `exp (c · log x) = x ^ c` for `x > 0`. -/
theorem exp_mul_log (c x : ℝ) (hx : 0 < x) : Real.exp (c * Real.log x) = x ^ c := by
  rw [Real.rpow_def_of_pos hx, mul_comm]

end Cv.C02
