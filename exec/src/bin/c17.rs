//! C17 executor: statistical transforms and binomial coefficients of `compute::functions`.
//! Requests: logisticv <vec> | logit p | rt1 x | rt2 p | boxcox x l | boxcoxs x l a | softmax2 c <vec> |
//! binom n k | binomalt n k
use compute::functions::{binom_coeff, binom_coeff_alt, boxcox, boxcox_shifted, logistic, logit, softmax};
use cvexec::*;

fn step(_: &mut (), t: &mut Toks) -> R<String> {
    match t.tok()? {
        "logisticv" => {
            let x = t.vec()?;
            t.end()?;
            let v: Vec<f64> = x.iter().map(|&a| logistic(a)).collect();
            Ok(ok(show_vec(&v)))
        }
        "logit" => {
            let p = t.f64()?;
            t.end()?;
            Ok(ok(show_f(logit(p))))
        }
        "rt1" => {
            let x = t.f64()?;
            t.end()?;
            let p = logistic(x);
            let r = logit(p);
            Ok(ok(format!("{} {}", show_f(p), show_f(r))))
        }
        "rt2" => {
            let p = t.f64()?;
            t.end()?;
            let q = logit(p);
            let r = logistic(q);
            Ok(ok(format!("{} {}", show_f(q), show_f(r))))
        }
        "boxcox" => {
            let (x, l) = (t.f64()?, t.f64()?);
            t.end()?;
            Ok(ok(show_f(boxcox(x, l))))
        }
        "boxcoxs" => {
            let (x, l, a) = (t.f64()?, t.f64()?, t.f64()?);
            t.end()?;
            Ok(ok(show_f(boxcox_shifted(x, l, a))))
        }
        "softmax2" => {
            let c = t.f64()?;
            let x = t.vec()?;
            t.end()?;
            let y: Vec<f64> = x.iter().map(|&a| a + c).collect();
            Ok(ok(format!("{} {}", show_vec(&softmax(&x)), show_vec(&softmax(&y)))))
        }
        "binom" => {
            let (n, k) = (t.u64()?, t.u64()?);
            t.end()?;
            Ok(ok(format!("{}", binom_coeff(n, k))))
        }
        "binomalt" => {
            let (n, k) = (t.u64()?, t.u64()?);
            t.end()?;
            Ok(ok(format!("{}", binom_coeff_alt(n, k))))
        }
        _ => Err(BadOp),
    }
}

fn main() {
    run((), step);
}
