import Compute.Props.C06
import Compute.Lemmas.C06Perm
/-
C06, full permutation invariance of `GLM::fit`.

`Lemmas/C06Perm.lean` proves that the scoring loop (`fitLoop`) does not see the order of the observations.  Here the
part of `fit` before the loop (`fitInit`: `is_matrix`, `is_design`, default weights, starting point `mean(y)`) and the
part after the loop (`fitFinish`: stored deviance, information matrix, `n = round(Σ w)`) are shown invariant as well, and
the three pieces are assembled into `fit_perm`: fitting the row-permuted problem (rows of `x`, `y`, the optional prior
weights and the optional offsets reordered by the same permutation `σ`) panics exactly when the original fit panics, and
otherwise stores the same `Fit` record with its only per-observation field (`offsets`) reordered.
-/
set_option linter.unusedSectionVars false
namespace Cv.C06P
open Cv Cv.Vops Cv.Glm Cv.C06L Cv.C06

variable {α : Type} [Field α] [LT α] [DecidableLT α] [BEq α] [Transc α] [GlmScalar α] [Inhabited α]
variable {n : Nat} (σ : Equiv.Perm (Fin n))

/-- the fit record of the reordered problem: only the stored offsets are per-observation -/
def permFit (r : Fit α) : Fit α := { r with offsets := r.offsets.map (permVec σ) }

/-! ### the permutation acts bijectively on `0..n-1` -/

theorem permIdx_surj {j : Nat} (hj : j < n) : ∃ i, i < n ∧ permIdx σ i = j := by
  refine ⟨(σ.symm ⟨j, hj⟩ : Nat), (σ.symm ⟨j, hj⟩).isLt, ?_⟩
  simp [permIdx]

theorem all_range_congr (m : Nat) (f g : Nat → Bool) (h : ∀ i, i < m → f i = g i) :
    (List.range m).all f = (List.range m).all g := by
  rw [Bool.eq_iff_iff]
  simp only [List.all_eq_true, List.mem_range]
  constructor
  · intro H i hi; rw [← h i hi]; exact H i hi
  · intro H i hi; rw [h i hi]; exact H i hi

/-- a conjunction over all observations does not see the permutation -/
theorem all_range_perm (f : Nat → Bool) :
    (List.range n).all (fun i => f (permIdx σ i)) = (List.range n).all f := by
  rw [Bool.eq_iff_iff]
  simp only [List.all_eq_true, List.mem_range]
  constructor
  · intro H j hj
    obtain ⟨i, hi, rfl⟩ := permIdx_surj σ hj
    exact H i hi
  · intro H i hi
    exact H _ (permIdx_lt σ hi)

/-! ### the part of `fit` before the loop -/

/-- **isDesign_perm.** The `is_design` check (first column all ones up to `EPSILON`) does not depend on the order of the
rows. -/
theorem isDesign_perm (x : List α) (p : Nat) (hn : 0 < n) (hx : x.length = n * p) :
    isDesign (permRows σ x p) n = isDesign x n := by
  have hm : isMatrix x n = some p := Cv.C05L.isMatrix_of_len hx hn
  have hm' : isMatrix (permRows σ x p) n = some p := Cv.C05L.isMatrix_of_len (permRows_length σ x p) hn
  unfold isDesign
  rw [hm, hm']
  simp only [Option.bind_eq_bind, Option.bind_some]
  by_cases hp : p = 0
  · simp [hp]
  · simp only [hp, if_false, Option.pure_def, Option.some.injEq]
    rw [← all_range_perm σ (fun i => !(decide ((LA.eps : α) < Transc.abs (x.toArray[i * p]! - 1))))]
    apply all_range_congr
    intro i hi
    have := permRows_get σ x p i 0 hi (by omega)
    simp only [Nat.add_zero] at this
    rw [toArray_getBang, toArray_getBang, this]

theorem resolveWeights_perm (weights : Option (List α)) (hw : ∀ w, weights = some w → w.length = n) :
    resolveWeights (weights.map (permVec σ)) n = (resolveWeights weights n).map (permVec σ) := by
  cases weights with
  | none => simp [resolveWeights, permVec_replicate]
  | some w => simp [resolveWeights, permVec_length, hw w rfl]

/-- **fitInit_perm.** The shape checks, the default weights and the starting point of the reordered problem are those of
the original problem (reordered). -/
theorem fitInit_perm (family : Family) (x y : List α) (weights offsets : Option (List α)) (alpha tol : α)
    (maxIter p : Nat) (hn : 0 < n) (hx : x.length = n * p) (hy : y.length = n)
    (hw : ∀ w, weights = some w → w.length = n) :
    fitInit family (permRows σ x p) (permVec σ y) (weights.map (permVec σ)) (offsets.map (permVec σ)) alpha tol maxIter =
      (fitInit family x y weights offsets alpha tol maxIter).map (fun q => (permProblem σ q.1, q.2)) := by
  have hm : isMatrix x n = some p := Cv.C05L.isMatrix_of_len hx hn
  have hm' : isMatrix (permRows σ x p) n = some p := Cv.C05L.isMatrix_of_len (permRows_length σ x p) hn
  unfold fitInit
  simp only [permVec_length, hy, hm, hm', isDesign_perm σ x p hn hx, resolveWeights_perm σ weights hw,
    Option.bind_eq_bind, Option.bind_some, initialIntercept_perm σ family y hy]
  cases isDesign x n with
  | none => rfl
  | some d =>
    cases d with
    | false => rfl
    | true =>
      simp only [Option.bind_some, Bool.not_true, Bool.false_eq_true, if_false]
      cases resolveWeights weights n with
      | none => rfl
      | some w => rfl

/-! ### the loop keeps the per-observation vectors at length `n` -/

theorem loopBody_lengths {solve : List α → List α → Option (List α)} {P : Problem α} {st st' : LoopState α}
    (hPn : P.n = n) (hn : 0 < n) (hp : 0 < P.p) (hx : P.x.length = n * P.p) (hc : st.coef.length = P.p)
    (ho : ∀ o, P.offsets = some o → o.length = n) (h : loopBody solve P st = some st') :
    st'.mu.length = n ∧ st'.dmu.length = n ∧ st'.var.length = n := by
  obtain ⟨eta, _, _, _, _, _, h1, _, _, _, _, _, h7⟩ := loopBody_some h
  obtain ⟨eta', he, hel, _⟩ := linearPredictor_spec P.x st.coef n P.p P.offsets hn hp hx hc ho
  rw [hPn, he] at h1
  obtain rfl := Option.some.inj h1
  have hmu : (invLink P.family eta').length = n := by rw [invLink_length, hel]
  subst h7
  refine ⟨hmu, ?_, ?_⟩
  · show (dInvLink P.family eta' (invLink P.family eta')).length = n
    rw [dInvLink_length _ _ _ (by rw [hmu, hel]), hmu]
  · show (variance P.family (invLink P.family eta')).length = n
    rw [variance_length, hmu]

theorem fitLoop_lengths (solve : List α → List α → Option (List α)) (P : Problem α)
    (hPn : P.n = n) (hn : 0 < n) (hp : 0 < P.p) (hx : P.x.length = n * P.p)
    (ho : ∀ o, P.offsets = some o → o.length = n) :
    ∀ (k : Nat) (st st' : LoopState α), st.coef.length = P.p → fitLoop solve P k st = some st' →
      st'.mu.length = n ∧ st'.dmu.length = n ∧ st'.var.length = n := by
  intro k
  induction k with
  | zero =>
    intro st st' hc h
    exact loopBody_lengths hPn hn hp hx hc ho h
  | succ k ih =>
    intro st st' hc h
    unfold fitLoop at h
    cases hb : loopBody solve P st with
    | none => rw [hb] at h; simp at h
    | some st1 =>
      rw [hb] at h
      simp only at h
      by_cases hconv : st1.converged = true
      · rw [if_pos hconv] at h
        obtain rfl := Option.some.inj h
        exact loopBody_lengths hPn hn hp hx hc ho hb
      · rw [if_neg hconv] at h
        exact ih st1 st' (by rw [loopBody_coef_length hb, hc]) h

/-! ### the part of `fit` after the loop -/

/-- **fitFinish_perm.** The stored deviance, information matrix and `n = round(Σ w)` of the reordered problem are those
of the original problem. -/
theorem fitFinish_perm (P : Problem α) (st : LoopState α) (hn : 0 < n) (hx : P.x.length = n * P.p)
    (hy : P.y.length = n) (hw : P.weights.length = n) (hmu : st.mu.length = n) (hdm : st.dmu.length = n)
    (hvr : st.var.length = n) :
    fitFinish (permProblem σ P) (permState σ st) = (fitFinish P st).map (permFit σ) := by
  unfold fitFinish
  simp only [permProblem, permState, deviance_perm σ P.family P.y st.mu hy hmu,
    ddbeta_perm σ P.x st.dmu st.var P.weights P.p hn hx hdm hvr hw, sum8_eq, permVec_sum σ P.weights hw,
    Option.bind_eq_bind]
  cases deviance P.family P.y st.mu with
  | none => rfl
  | some dev =>
    cases computeDdbeta P.x st.dmu st.var P.weights with
    | none => rfl
    | some info => rfl

/-! ### degenerate shapes: no observations or no columns is a panic -/

theorem fit_none_of_no_obs (solve : List α → List α → Option (List α)) (family : Family) (x y : List α)
    (weights offsets : Option (List α)) (alpha tol : α) (maxIter : Nat) (hy : y.length = 0) :
    fit solve family x y weights offsets alpha tol maxIter = none := by
  simp [fit, fitInit, isMatrix, hy]

theorem fit_none_of_no_cols (solve : List α → List α → Option (List α)) (family : Family) (x y : List α)
    (weights offsets : Option (List α)) (alpha tol : α) (maxIter : Nat) (hx : x.length = 0) :
    fit solve family x y weights offsets alpha tol maxIter = none := by
  by_cases hy : y.length = 0
  · exact fit_none_of_no_obs solve family x y weights offsets alpha tol maxIter hy
  · have hm : isMatrix x y.length = some 0 := Cv.C05L.isMatrix_of_len (by rw [hx, Nat.mul_zero]) (by omega)
    simp [fit, fitInit, isDesign, hm]

/-! ### the whole of `fit` -/

/-- **fit_perm.** `GLM::fit` is invariant under a reordering of the observations.  For a well-shaped problem (`x` is
`n × p`, `y`, the optional prior weights and the optional offsets have length `n`; nothing else is assumed: any family,
any penalty, any tolerance, any iteration budget, any linear solver, `n = 0` and `p = 0` included) the fit of the problem
whose rows of `x`, `y`, weights and offsets are reordered by `σ` panics exactly when the original fit panics, and
otherwise leaves the same record: same `Ok`/`Err`, coefficients, deviance, information matrix, `n`, `p`, iteration count,
convergence flag and last two penalised deviances; the stored offsets are the reordered offsets. -/
theorem fit_perm (solve : List α → List α → Option (List α)) (family : Family) (x y : List α)
    (weights offsets : Option (List α)) (alpha tol : α) (maxIter p : Nat)
    (hx : x.length = n * p) (hy : y.length = n) (hw : ∀ w, weights = some w → w.length = n)
    (ho : ∀ o, offsets = some o → o.length = n) :
    fit solve family (permRows σ x p) (permVec σ y) (weights.map (permVec σ)) (offsets.map (permVec σ)) alpha tol
        maxIter =
      (fit solve family x y weights offsets alpha tol maxIter).map (permFit σ) := by
  rcases Nat.eq_zero_or_pos n with hn | hn
  · rw [fit_none_of_no_obs solve family x y _ _ _ _ _ (by omega),
      fit_none_of_no_obs solve family _ (permVec σ y) _ _ _ _ _ (by rw [permVec_length]; exact hn)]
    rfl
  rcases Nat.eq_zero_or_pos p with hp | hp
  · rw [fit_none_of_no_cols solve family x y _ _ _ _ _ (by rw [hx, hp]; rfl),
      fit_none_of_no_cols solve family (permRows σ x p) _ _ _ _ _ _ (by rw [permRows_length, hp]; rfl)]
    rfl
  have hI := fitInit_perm σ family x y weights offsets alpha tol maxIter p hn hx hy hw
  unfold fit
  rw [hI]
  cases hinit : fitInit family x y weights offsets alpha tol maxIter with
  | none => rfl
  | some q =>
    obtain ⟨P, st0⟩ := q
    obtain ⟨_, _, _, _, hoff, hPx, hPy, hPn, hPp, _, hPw, _, _, _, _, hc0⟩ := fitInit_some hinit
    have hpp : P.p = p := by
      rw [hy, Cv.C05L.isMatrix_of_len hx hn] at hPp
      exact (Option.some.inj hPp).symm
    have hPn' : P.n = n := by rw [hPn, hy]
    have hPx' : P.x.length = n * P.p := by rw [hPx, hpp, hx]
    have hPy' : P.y.length = n := by rw [hPy, hy]
    have hPw' : P.weights.length = n := by rw [hPw, hy]
    have hPo : ∀ o, P.offsets = some o → o.length = n := by rw [hoff]; exact ho
    have hPp' : 0 < P.p := by rw [hpp]; exact hp
    have hc : st0.coef.length = P.p := by rw [hc0]; simp; omega
    simp only [Option.map_some, Option.bind_eq_bind, Option.bind_some]
    rw [fitLoop_perm σ solve P hPn' hn hPp' hPx' hPy' hPw' hPo (maxIter - 1) st0 hc]
    cases hloop : fitLoop solve P (maxIter - 1) st0 with
    | none => rfl
    | some st =>
      obtain ⟨hmu, hdm, hvr⟩ := fitLoop_lengths solve P hPn' hn hPp' hPx' hPo (maxIter - 1) st0 st hc hloop
      simp only [Option.map_some, Option.bind_some]
      exact fitFinish_perm σ P st hn hPx' hPy' hPw' hmu hdm hvr

section corollaries
variable (solve : List α → List α → Option (List α)) (family : Family) (x y : List α)
  (weights offsets : Option (List α)) (alpha tol : α) (maxIter p : Nat)
  (hx : x.length = n * p) (hy : y.length = n) (hw : ∀ w, weights = some w → w.length = n)
  (ho : ∀ o, offsets = some o → o.length = n)
include hx hy hw ho

/-- **fit_perm_none.** Same panic behaviour: the reordered fit panics iff the original fit panics. -/
theorem fit_perm_none :
    fit solve family (permRows σ x p) (permVec σ y) (weights.map (permVec σ)) (offsets.map (permVec σ)) alpha tol
        maxIter = none ↔
      fit solve family x y weights offsets alpha tol maxIter = none := by
  rw [fit_perm σ solve family x y weights offsets alpha tol maxIter p hx hy hw ho, Option.map_eq_none_iff]

/-- **fit_perm_fields.** Everything `fit` stores except the offsets is literally the same. -/
theorem fit_perm_fields :
    (fit solve family (permRows σ x p) (permVec σ y) (weights.map (permVec σ)) (offsets.map (permVec σ)) alpha tol
        maxIter).map
        (fun r => (r.ok, r.coef, r.deviance, r.information, r.n, r.p, r.family, r.nIter, r.converged, r.pd, r.pdPrev)) =
      (fit solve family x y weights offsets alpha tol maxIter).map
        (fun r => (r.ok, r.coef, r.deviance, r.information, r.n, r.p, r.family, r.nIter, r.converged, r.pd, r.pdPrev)) := by
  rw [fit_perm σ solve family x y weights offsets alpha tol maxIter p hx hy hw ho, Option.map_map]
  rfl

/-- **fit_perm_coef.** Same coefficients. -/
theorem fit_perm_coef :
    (fit solve family (permRows σ x p) (permVec σ y) (weights.map (permVec σ)) (offsets.map (permVec σ)) alpha tol
        maxIter).map (·.coef) =
      (fit solve family x y weights offsets alpha tol maxIter).map (·.coef) := by
  rw [fit_perm σ solve family x y weights offsets alpha tol maxIter p hx hy hw ho, Option.map_map]
  rfl

/-- **fit_perm_deviance.** Same stored deviance. -/
theorem fit_perm_deviance :
    (fit solve family (permRows σ x p) (permVec σ y) (weights.map (permVec σ)) (offsets.map (permVec σ)) alpha tol
        maxIter).map (·.deviance) =
      (fit solve family x y weights offsets alpha tol maxIter).map (·.deviance) := by
  rw [fit_perm σ solve family x y weights offsets alpha tol maxIter p hx hy hw ho, Option.map_map]
  rfl

/-- **fit_perm_information.** Same stored information matrix (hence the same covariance matrix and standard errors). -/
theorem fit_perm_information :
    (fit solve family (permRows σ x p) (permVec σ y) (weights.map (permVec σ)) (offsets.map (permVec σ)) alpha tol
        maxIter).map (·.information) =
      (fit solve family x y weights offsets alpha tol maxIter).map (·.information) := by
  rw [fit_perm σ solve family x y weights offsets alpha tol maxIter p hx hy hw ho, Option.map_map]
  rfl

/-- **fit_perm_status.** Same `Ok`/`Err`, iteration count and convergence flag. -/
theorem fit_perm_status :
    (fit solve family (permRows σ x p) (permVec σ y) (weights.map (permVec σ)) (offsets.map (permVec σ)) alpha tol
        maxIter).map (fun r => (r.ok, r.nIter, r.converged)) =
      (fit solve family x y weights offsets alpha tol maxIter).map (fun r => (r.ok, r.nIter, r.converged)) := by
  rw [fit_perm σ solve family x y weights offsets alpha tol maxIter p hx hy hw ho, Option.map_map]
  rfl

end corollaries

/-! ### the accessors of the reordered fit -/

theorem aic_permFit (r : Fit α) : aic (permFit σ r) = aic r := rfl
theorem bic_permFit (r : Fit α) : bic (permFit σ r) = bic r := rfl
theorem dispersion_permFit (r : Fit α) : dispersion (permFit σ r) = dispersion r := rfl
theorem coefCovariance_permFit (invert : List α → Option (List α)) (r : Fit α) :
    coefCovariance invert (permFit σ r) = coefCovariance invert r := rfl
theorem coefStandardError_permFit (invert : List α → Option (List α)) (r : Fit α) :
    coefStandardError invert (permFit σ r) = coefStandardError invert r := rfl

/-- `predict` in terms of the linear predictor of the loop -/
theorem predict_eq_linearPredictor (r : Fit α) (x : List α) (m : Nat) (hp : 0 < r.p)
    (hx : x.length = m * r.p) (ho : ∀ o, r.offsets = some o → o.length = m) :
    predict r x = (isDesign x m).bind fun d =>
      if !d then none else (linearPredictor x r.coef m r.p r.offsets).map (invLink r.family) := by
  have hmm : isMatrix x r.p = some m := Cv.C05L.isMatrix_of_len (by rw [hx, Nat.mul_comm]) hp
  unfold predict linearPredictor
  simp only [hmm, Option.bind_eq_bind, Option.bind_some]
  cases isDesign x m with
  | none => rfl
  | some d =>
    cases d with
    | false => rfl
    | true =>
      simp only [Option.bind_some, Bool.not_true, Bool.false_eq_true, if_false]
      cases matmul x r.coef m r.p false false with
      | none => rfl
      | some res =>
        simp only [Option.bind_some]
        cases hoff : r.offsets with
        | none => rfl
        | some o =>
          simp only [ho o hoff, ne_eq, not_true_eq_false, if_false, Option.pure_def]
          cases Vops.vbin (· + ·) res o with
          | none => rfl
          | some e => rfl

/-- **predict_perm.** Predictions for reordered new rows (with the stored offsets reordered alike) are the reordered
predictions; same panic behaviour. -/
theorem predict_perm (r : Fit α) (x : List α) (hn : 0 < n) (hp : 0 < r.p) (hx : x.length = n * r.p)
    (hc : r.coef.length = r.p) (ho : ∀ o, r.offsets = some o → o.length = n) :
    predict (permFit σ r) (permRows σ x r.p) = (predict r x).map (permVec σ) := by
  have ho' : ∀ o, (permFit σ r).offsets = some o → o.length = n := by
    intro o h
    cases hoff : r.offsets with
    | none => simp [permFit, hoff] at h
    | some o' =>
      simp only [permFit, hoff, Option.map_some, Option.some.injEq] at h
      subst h; exact permVec_length σ o'
  rw [predict_eq_linearPredictor (permFit σ r) (permRows σ x r.p) n hp (permRows_length σ x r.p) ho',
    predict_eq_linearPredictor r x n hp hx ho, isDesign_perm σ x r.p hn hx]
  cases isDesign x n with
  | none => rfl
  | some d =>
    cases d with
    | false => rfl
    | true =>
      simp only [Option.bind_some, Bool.not_true, Bool.false_eq_true, if_false]
      obtain ⟨eta, he, hel, _⟩ := linearPredictor_spec x r.coef n r.p r.offsets hn hp hx hc ho
      have hA := linearPredictor_perm σ x r.coef r.p r.offsets hn hp hx hc ho eta he
      show (linearPredictor (permRows σ x r.p) r.coef n r.p (r.offsets.map (permVec σ))).map (invLink r.family) = _
      rw [hA, he]
      simp only [Option.map_some]
      rw [invLink_eq, invLink_eq, permVec_map σ _ eta hel]

/-! ### non-vacuity: a `3 × 2` weighted Gaussian problem with offsets over `ℚ`, reordered by the transposition `(0 2)` -/

section examples
local instance : Transc ℚ := ⟨id, id, id, fun a _ => a, id, id, id, abs, id, id⟩
local instance : GlmScalar ℚ := ⟨fun _ => false, fun q => q.floor.toNat⟩

/-- the exact `2 × 2` solver (Cramer's rule) -/
def solve2 (H g : List ℚ) : Option (List ℚ) :=
  match H, g with
  | [a, b, c, d], [u, v] =>
    if a * d - b * c = 0 then none else some [(u * d - b * v) / (a * d - b * c), (a * v - u * c) / (a * d - b * c)]
  | _, _ => none

/-- the transposition of the first and the last of three observations -/
def swap02 : Equiv.Perm (Fin 3) := Equiv.swap 0 2

/-- the reordering really reorders -/
example : permRows swap02 [1, 0, 1, 1, 1, 3] 2 = ([1, 3, 1, 1, 1, 0] : List ℚ) ∧
    permVec swap02 [1, 2, 4] = ([4, 2, 1] : List ℚ) := by decide +kernel

/-- the original fit runs to convergence (`Ok`, three passes) -/
example : (fit solve2 .gaussian [1, 0, 1, 1, 1, 3] [1, 2, 4] (some [1, 2, 1]) (some [0, 1/2, 0]) 0 (1/100) 10).map
    (fun r => (r.ok, r.coef, r.deviance, r.information)) = some (true, [13/19, 20/19], 261/1444, [4, 5, 5, 11]) ∧
    (fit solve2 .gaussian [1, 0, 1, 1, 1, 3] [1, 2, 4] (some [1, 2, 1]) (some [0, 1/2, 0]) 0 (1/100) 10).map
    (fun r => (r.nIter, r.converged, r.n, r.p)) = some (3, true, 4, 2) ∧
    (fit solve2 .gaussian [1, 0, 1, 1, 1, 3] [1, 2, 4] (some [1, 2, 1]) (some [0, 1/2, 0]) 0 (1/100) 10).map
    (·.offsets) = some (some [0, 1/2, 0]) :=
  ⟨by decide +kernel, by decide +kernel, by decide +kernel⟩

/-- `fit_perm` applies (its hypotheses hold on this input) and transports the result to the reordered problem -/
example : (fit solve2 .gaussian (permRows swap02 [1, 0, 1, 1, 1, 3] 2) (permVec swap02 [1, 2, 4])
      ((some [1, 2, 1]).map (permVec swap02)) ((some [0, 1/2, 0]).map (permVec swap02)) 0 (1/100) 10).map
    (fun r => (r.ok, r.coef, r.deviance, r.information)) = some (true, [13/19, 20/19], 261/1444, [4, 5, 5, 11]) ∧
    (fit solve2 .gaussian (permRows swap02 [1, 0, 1, 1, 1, 3] 2) (permVec swap02 [1, 2, 4])
      ((some [1, 2, 1]).map (permVec swap02)) ((some [0, 1/2, 0]).map (permVec swap02)) 0 (1/100) 10).map
    (fun r => (r.nIter, r.converged, r.n, r.p)) = some (3, true, 4, 2) ∧
    (fit solve2 .gaussian (permRows swap02 [1, 0, 1, 1, 1, 3] 2) (permVec swap02 [1, 2, 4])
      ((some [1, 2, 1]).map (permVec swap02)) ((some [0, 1/2, 0]).map (permVec swap02)) 0 (1/100) 10).map
    (·.offsets) = some (some [0, 1/2, 0]) := by
  rw [fit_perm swap02 solve2 .gaussian [1, 0, 1, 1, 1, 3] [1, 2, 4] (some [1, 2, 1]) (some [0, 1/2, 0]) 0 (1/100) 10 2
    rfl rfl (by intro w h; cases h; rfl) (by intro o h; cases h; rfl)]
  exact ⟨by decide +kernel, by decide +kernel, by decide +kernel⟩

/-- and agrees with running the model on the reordered input directly -/
example : (fit solve2 .gaussian [1, 3, 1, 1, 1, 0] [4, 2, 1] (some [1, 2, 1]) (some [0, 1/2, 0]) 0 (1/100) 10).map
    (fun r => (r.ok, r.coef, r.deviance, r.information)) = some (true, [13/19, 20/19], 261/1444, [4, 5, 5, 11]) := by
  decide +kernel

/-- the panic branch of `fit_perm_none` is inhabited as well: a first column that is not all ones -/
example : fit solve2 .gaussian (permRows swap02 [1, 0, 2, 1, 1, 3] 2) (permVec swap02 [1, 2, 4])
    ((none : Option (List ℚ)).map (permVec swap02)) ((none : Option (List ℚ)).map (permVec swap02)) 0 (1/100) 10
    = none := by
  rw [fit_perm_none swap02 solve2 .gaussian [1, 0, 2, 1, 1, 3] [1, 2, 4] none none 0 (1/100) 10 2
    rfl rfl (by intro w h; cases h) (by intro o h; cases h)]
  decide +kernel

/-- a fitted record (the one above) -/
def fit0 : Fit ℚ where
  ok := true
  coef := [13/19, 20/19]
  deviance := 261/1444
  information := [4, 5, 5, 11]
  n := 4
  p := 2
  family := .gaussian
  offsets := some [0, 1/2, 0]
  nIter := 3
  converged := true
  pd := none
  pdPrev := none

/-- `predict_perm` on that record and the three training rows: the hypotheses hold, both sides are `some` -/
example : predict (permFit swap02 fit0) (permRows swap02 [1, 0, 1, 1, 1, 3] fit0.p) = some [73/19, 85/38, 13/19] := by
  rw [predict_perm swap02 fit0 [1, 0, 1, 1, 1, 3] (by decide) (by decide) rfl rfl (by intro o h; cases h; rfl)]
  decide +kernel

end examples

end Cv.C06P
