import Compute.Model.DistPdf
import Compute.Props.C05
import Compute.Lemmas.C02
/-
C02 — the quadratic form of the multivariate normal density: `x_minus_mu.t_dot(&inverse.dot(&x_minus_mu))`, through the
`Dot` trait semantics proved for C05 (`dotMV_spec`, `dotVV_spec`), is `Σᵢ (x-μ)ᵢ · (Σⱼ Pᵢⱼ (x-μ)ⱼ)`.
-/
namespace Cv.C02
open Cv Cv.Dist Cv.DotT Cv.C05W Cv.C05

/-- `Σᵢ (x-μ)ᵢ · (Σⱼ Pᵢⱼ (x-μ)ⱼ)` with `P = d.inv` (row-major, `k` columns), written on the lists the code uses. -/
noncomputable def mvnQuad (d : MVN ℝ) (x : List ℝ) (k : ℕ) : ℝ :=
  (List.zipWith (· * ·) (MVN.xMinusMu d x)
    ((List.range k).map fun i => ∑ j ∈ Finset.range k, d.inv.data[i * k + j]! * (MVN.xMinusMu d x)[j]!)).sum

theorem xMinusMu_length (d : MVN ℝ) (x : List ℝ) (k : ℕ) (hx : x.length = k) (hm : d.mean.length = k) :
    (MVN.xMinusMu d x).length = k := by
  simp [MVN.xMinusMu, hx, hm]

/-- The code's quadratic form exists (no shape panic) and equals `mvnQuad`. -/
theorem mvn_quadForm (d : MVN ℝ) (x : List ℝ) (k : ℕ) (hk : 0 < k) (hx : x.length = k) (hm : d.mean.length = k)
    (hP : d.inv.WF) (hPr : d.inv.nrows = k) (hPc : d.inv.ncols = k) :
    ∃ q, MVN.quadForm d x = some q ∧ q = mvnQuad d x k := by
  have hl := xMinusMu_length d x k hx hm
  obtain ⟨r, hr, hrl, hre⟩ := dotMV_spec (α := ℝ) Meth.dot d.inv (MVN.xMinusMu d x) hP (by omega) (by omega)
    (by simp [flagA, hPc, hl])
  simp only [flagA, Bool.false_eq_true, if_false] at hrl hre
  have hreq : r = (List.range k).map fun i =>
      ∑ j ∈ Finset.range k, d.inv.data[i * k + j]! * (MVN.xMinusMu d x)[j]! := by
    apply List.ext_getElem
    · simp [hrl, hPr]
    · intro i h1 h2
      have := hre i h1
      rw [getElem!_pos r i h1] at this
      rw [this]
      simp [C05L.opEntry, hl, hPc]
  refine ⟨_, ?_, rfl⟩
  simp only [MVN.quadForm, hr, Option.bind_eq_bind, Option.bind_some]
  rw [dotVV_spec, if_pos (by rw [hl, hrl, hPr]), mvnQuad, hreq]

end Cv.C02
