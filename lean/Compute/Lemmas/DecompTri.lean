import Compute.Lemmas.Decomp
import Mathlib.Algebra.Field.Basic
import Mathlib.Tactic.FieldSimp
/-
Triangular solves of decomposition/substitution.rs in exact arithmetic (any field):
the result of `forward_substitution` / `backward_substitution` satisfies `T·x = b`, reading only the
relevant triangle.
-/
namespace Cv.LA

section
variable {α : Type} [Zero α]

theorem rd_take (a : List α) (k j : Nat) (h : j < k) : rd (a.take k) j = rd a j := by
  simp [rd, List.getD_eq_getElem?_getD, h]

end

section
variable {F : Type} [Field F]

theorem zipWith_sum_eq (u xs : List F) (hk : xs.length ≤ u.length) :
    (List.zipWith (· * ·) u xs).sum = ((List.range xs.length).map fun j => rd u j * rd xs j).sum := by
  induction xs generalizing u with
  | nil => simp
  | cons y ys ih =>
    cases u with
    | nil => simp at hk
    | cons v vs =>
      have hk' : ys.length ≤ vs.length := by simpa using hk
      simp only [List.zipWith_cons_cons, List.sum_cons, List.length_cons, List.range_succ_eq_map,
        List.map_cons, List.map_map, rd_cons_zero]
      rw [ih vs hk']
      congr 2

/-- the partial dot product of the substitutions as a plain sum over the row segment -/
theorem dot8_segment (l xs : List F) (m : Nat) (h : m + xs.length ≤ l.length) :
    dot8 ((l.drop m).take xs.length) xs = ((List.range xs.length).map fun j => rd l (m + j) * rd xs j).sum := by
  rw [dot8_eq_sum, zipWith_sum_eq _ _ (by simp; omega)]
  congr 1
  apply List.map_congr_left
  intro j hj
  rw [rd_take _ _ _ (by simpa using hj), rd_drop]

def fwdStep (n : Nat) (l b x : List F) (i : Nat) : List F :=
  x ++ [(rd b i - dot8 ((l.drop (i * n)).take i) x) / rd l (i * n + i)]

theorem fwd_invariant (n : Nat) (l b : List F) (hl : l.length = n * n)
    (hd : ∀ i, i < n → rd l (i * n + i) ≠ 0) (k : Nat) (hk : k ≤ n) :
    ((List.range k).foldl (fwdStep n l b) []).length = k ∧ ∀ i, i < k →
      ((List.range (i + 1)).map fun j => rd l (i * n + j) *
        rd ((List.range k).foldl (fwdStep n l b) []) j).sum = rd b i := by
  induction k with
  | zero => simp
  | succ k ih =>
    obtain ⟨hlen, hrow⟩ := ih (by omega)
    have hstep : (List.range (k + 1)).foldl (fwdStep n l b) [] =
        fwdStep n l b ((List.range k).foldl (fwdStep n l b) []) k := by
      rw [List.range_succ, List.foldl_append]; rfl
    rw [hstep]
    set x := (List.range k).foldl (fwdStep n l b) [] with hx
    have hkn : k < n := by omega
    have hseg : k * n + x.length ≤ l.length := by
      rw [hlen, hl]
      have : (k + 1) * n ≤ n * n := Nat.mul_le_mul_right n hkn
      rw [Nat.add_mul] at this; omega
    have hdot : dot8 ((l.drop (k * n)).take k) x = ((List.range k).map fun j => rd l (k * n + j) * rd x j).sum := by
      have := dot8_segment l x (k * n) hseg
      rwa [hlen] at this
    refine ⟨by simp [fwdStep, hlen], ?_⟩
    intro i hi
    by_cases hik : i < k
    · rw [← hrow i hik]
      congr 1
      apply List.map_congr_left
      intro j hj
      have : j < x.length := by rw [hlen]; have := List.mem_range.mp hj; omega
      simp only [fwdStep, rd_append_left _ _ _ this]
    · have hik' : i = k := by omega
      subst hik'
      rw [List.range_succ, List.map_append, List.sum_append]
      have h1 : ((List.range i).map fun j => rd l (i * n + j) * rd (fwdStep n l b x i) j).sum
          = ((List.range i).map fun j => rd l (i * n + j) * rd x j).sum := by
        congr 1
        apply List.map_congr_left
        intro j hj
        have : j < x.length := by rw [hlen]; exact List.mem_range.mp hj
        simp only [fwdStep, rd_append_left _ _ _ this]
      have h2 : rd (fwdStep n l b x i) i = (rd b i - dot8 ((l.drop (i * n)).take i) x) / rd l (i * n + i) := by
        have := rd_append_length x ((rd b i - dot8 ((l.drop (i * n)).take i) x) / rd l (i * n + i))
        rw [hlen] at this
        exact this
      rw [h1, ← hdot]
      simp only [List.map_cons, List.map_nil, List.sum_cons, List.sum_nil, add_zero, h2]
      have := hd i hkn
      field_simp
      ring

/-- **forward substitution**: for a square `l` with non-zero diagonal the returned `x` satisfies
`Σ_{j ≤ i} l[i,j]·x[j] = b[i]` for every row — only the lower triangle of `l` is read. -/
theorem forwardSubstitution_spec (l b x : List F) (n : Nat) (hl : l.length = n * n)
    (hd : ∀ i, i < n → rd l (i * n + i) ≠ 0) (h : forwardSubstitution l b = some x) :
    b.length = n ∧ x.length = n ∧ ∀ i, i < n →
      ((List.range (i + 1)).map fun j => rd l (i * n + j) * rd x j).sum = rd b i := by
  unfold forwardSubstitution at h
  rw [hl, isSquare_sq] at h
  simp only [Option.bind_eq_bind, Option.bind_some] at h
  by_cases hb : b.length = n
  · simp only [hb, ne_eq, not_true_eq_false, if_false, Option.pure_def, Option.some.injEq] at h
    have := fwd_invariant n l b hl hd n (Nat.le_refl n)
    change (List.range n).foldl (fwdStep n l b) [] = x at h
    rw [h] at this
    exact ⟨hb, this.1, this.2⟩
  · simp [hb] at h

/-- the panic branch: a right-hand side of the wrong length, or a non-square `l` -/
theorem forwardSubstitution_none (l b : List F) (n : Nat) (hl : l.length = n * n) (hb : b.length ≠ n) :
    forwardSubstitution l b = none := by
  unfold forwardSubstitution
  rw [hl, isSquare_sq]
  simp [hb]

def bwdStep (n : Nat) (u b x : List F) (i : Nat) : List F :=
  ((rd b i - dot8 ((u.drop (i * n + i + 1)).take (n - (i + 1))) x) / rd u (i * n + i)) :: x

theorem bwd_invariant (n : Nat) (u b : List F) (hl : u.length = n * n)
    (hd : ∀ i, i < n → rd u (i * n + i) ≠ 0) (m : Nat) (hm : m ≤ n) :
    ((List.range' (n - m) m).foldr (fun i x => bwdStep n u b x i) []).length = m ∧ ∀ i, n - m ≤ i → i < n →
      ((List.range (n - i)).map fun t => rd u (i * n + i + t) *
        rd ((List.range' (n - m) m).foldr (fun i x => bwdStep n u b x i) []) (i - (n - m) + t)).sum = rd b i := by
  induction m with
  | zero => simp; intro i h1 h2; omega
  | succ m ih =>
    obtain ⟨hlen, hrow⟩ := ih (by omega)
    have hk : n - (m + 1) + 1 = n - m := by omega
    have hstep : (List.range' (n - (m + 1)) (m + 1)).foldr (fun i x => bwdStep n u b x i) [] =
        bwdStep n u b ((List.range' (n - m) m).foldr (fun i x => bwdStep n u b x i) []) (n - (m + 1)) := by
      rw [List.range'_succ, List.foldr_cons, hk]
    rw [hstep]
    set x := (List.range' (n - m) m).foldr (fun i x => bwdStep n u b x i) [] with hx
    set k := n - (m + 1) with hkdef
    have hkn : k < n := by omega
    have hm' : n - (k + 1) = x.length := by rw [hlen]; omega
    have hseg : (k * n + k + 1) + x.length ≤ u.length := by
      rw [hlen, hl]
      have : (k + 1) * n ≤ n * n := Nat.mul_le_mul_right n hkn
      rw [Nat.add_mul] at this; omega
    have hdot : dot8 ((u.drop (k * n + k + 1)).take (n - (k + 1))) x =
        ((List.range x.length).map fun t => rd u (k * n + k + 1 + t) * rd x t).sum := by
      rw [hm']; exact dot8_segment u x (k * n + k + 1) hseg
    refine ⟨by simp [bwdStep, hlen], ?_⟩
    intro i hi1 hi2
    by_cases hik : i = k
    · subst hik
      have hni : n - k = x.length + 1 := by omega
      rw [hni, List.range_succ_eq_map, List.map_cons, List.sum_cons, List.map_map]
      have h1 : ((List.range x.length).map ((fun t => rd u (k * n + k + t) * rd (bwdStep n u b x k) (k - k + t)) ∘ Nat.succ)).sum
          = ((List.range x.length).map fun t => rd u (k * n + k + 1 + t) * rd x t).sum := by
        congr 1
        apply List.map_congr_left
        intro t _
        simp only [Function.comp, bwdStep]
        rw [show k - k + t.succ = t + 1 by omega, rd_cons_succ, show k * n + k + t.succ = k * n + k + 1 + t by omega]
      rw [h1, ← hdot]
      simp only [Nat.sub_self, Nat.add_zero, bwdStep, rd_cons_zero]
      have := hd k hkn
      field_simp
      ring
    · have hgt : k < i := by omega
      rw [← hrow i (by omega) hi2]
      congr 1
      apply List.map_congr_left
      intro t _
      simp only [bwdStep]
      rw [show i - k + t = (i - (n - m) + t) + 1 by omega, rd_cons_succ]

/-- **backward substitution**: for a square `u` with non-zero diagonal the returned `x` satisfies
`Σ_{j ≥ i} u[i,j]·x[j] = b[i]` for every row — only the upper triangle of `u` is read. -/
theorem backwardSubstitution_spec (u b x : List F) (n : Nat) (hl : u.length = n * n)
    (hd : ∀ i, i < n → rd u (i * n + i) ≠ 0) (h : backwardSubstitution u b = some x) :
    b.length = n ∧ x.length = n ∧ ∀ i, i < n →
      ((List.range (n - i)).map fun t => rd u (i * n + i + t) * rd x (i + t)).sum = rd b i := by
  unfold backwardSubstitution at h
  rw [hl, isSquare_sq] at h
  simp only [Option.bind_eq_bind, Option.bind_some] at h
  by_cases hb : b.length = n
  · simp only [hb, ne_eq, not_true_eq_false, if_false, Option.pure_def, Option.some.injEq] at h
    rw [List.foldl_reverse, List.range_eq_range'] at h
    have := bwd_invariant n u b hl hd n (Nat.le_refl n)
    simp only [Nat.sub_self] at this
    change (List.range' 0 n).foldr (fun i x => bwdStep n u b x i) [] = x at h
    rw [h] at this
    refine ⟨hb, this.1, fun i hi => ?_⟩
    have := this.2 i (Nat.zero_le _) hi
    simpa using this
  · simp [hb] at h

theorem backwardSubstitution_none (u b : List F) (n : Nat) (hl : u.length = n * n) (hb : b.length ≠ n) :
    backwardSubstitution u b = none := by
  unfold backwardSubstitution
  rw [hl, isSquare_sq]
  simp [hb]

end
end Cv.LA
