import Mathlib.Data.Nat.Choose.Basic
import Mathlib.Tactic.Ring
import Mathlib.Tactic.Linarith
import Compute.Model.Binom
/-
Lemmas for C17 (binomial coefficient): the loop invariant `c = C(n, i-1)` of `binom_coeff`, exactness
of the split division, and the bounds showing that neither the guard nor a 64-bit overflow can occur
while the final value fits in 64 bits.
-/
namespace Cv.C17
open Cv

/-- Exactness of the update `c/i*(n-i+1) + c%i*(n-i+1)/i` for `c = C(n,i-1)` (written with `k = i-1`). -/
theorem step_exact (n k : Nat) :
    n.choose k / (k + 1) * (n - k) + n.choose k % (k + 1) * (n - k) / (k + 1) = n.choose (k + 1) := by
  have h := Nat.choose_succ_right_eq n k
  generalize n.choose k = c at h ⊢
  generalize n - k = m at h ⊢
  generalize n.choose (k + 1) = C at h ⊢
  have hdm : (k + 1) * (c / (k + 1)) + c % (k + 1) = c := Nat.div_add_mod c (k + 1)
  generalize c / (k + 1) = q at hdm ⊢
  generalize c % (k + 1) = r at hdm ⊢
  -- (k+1) * C = (k+1) * (q*m) + r*m
  have e : (k + 1) * C = (k + 1) * (q * m) + r * m := by
    calc (k + 1) * C = C * (k + 1) := by ring
      _ = c * m := h
      _ = ((k + 1) * q + r) * m := by rw [hdm]
      _ = (k + 1) * (q * m) + r * m := by ring
  have hle : q * m ≤ C := by
    have : (k + 1) * (q * m) ≤ (k + 1) * C := by omega
    exact Nat.le_of_mul_le_mul_left this (Nat.succ_pos k)
  have hrm : r * m = (k + 1) * (C - q * m) := by
    rw [Nat.mul_sub, e, Nat.add_sub_cancel_left]
  rw [hrm, Nat.mul_div_cancel_left _ (Nat.succ_pos k)]
  omega

/-- Binomial coefficients are non-decreasing up to the middle. -/
theorem choose_mono_half {n a b : Nat} (hab : a ≤ b) (hb : 2 * b ≤ n) : n.choose a ≤ n.choose b := by
  induction b with
  | zero =>
    have : a = 0 := by omega
    subst this; exact le_refl _
  | succ b ih =>
    rcases Nat.lt_or_ge a (b + 1) with h | h
    · have h1 : n.choose a ≤ n.choose b := ih (by omega) (by omega)
      have h2 : n.choose b ≤ n.choose (b + 1) := Nat.choose_le_succ_of_lt_half_left (by omega)
      exact le_trans h1 h2
    · have : a = b + 1 := by omega
      subst this; exact le_refl _

/-- `i (n-i+1) ≤ C(n,2)` for `2 ≤ i ≤ n/2`: the second product of the update is small. -/
theorem rem_prod_le (n i : Nat) (h2 : 2 ≤ i) (hi : 2 * i ≤ n) : i * (n - i + 1) ≤ n.choose 2 := by
  rw [Nat.choose_two_right]
  have h1 : i * (n - i + 1) ≤ i * (n - 1) := Nat.mul_le_mul_left _ (by omega)
  have h3 : i * (n - 1) * 2 ≤ n * (n - 1) := by
    have : i * 2 ≤ n := by omega
    calc i * (n - 1) * 2 = (i * 2) * (n - 1) := by ring
      _ ≤ n * (n - 1) := Nat.mul_le_mul_right _ this
  have h4 : i * (n - 1) ≤ n * (n - 1) / 2 := (Nat.le_div_iff_mul_le (by norm_num)).2 h3
  exact le_trans h1 h4

/-- The loop from step `i = k+1` with `c = C(n,k)` runs to completion and returns `C(n,nk)`, provided that
value fits in 64 bits and `nk ≤ n/2`. -/
theorem binomGo_exact (n nk : Nat) (hnk : 2 * nk ≤ n) (hfit : n.choose nk < 2 ^ 64) :
    ∀ steps k, k + steps = nk → binomGo n nk steps (k + 1) (n.choose k) = .val (n.choose nk) := by
  intro steps
  induction steps with
  | zero => intro k hk; simp only [Nat.add_zero] at hk; subst hk; simp [binomGo]
  | succ s ih =>
    intro k hk
    have hk1 : k + 1 ≤ nk := by omega
    have hnkpos : 0 < nk := by omega
    have hm : n - (k + 1) + 1 = n - k := by omega
    have hC1 : n.choose (k + 1) ≤ n.choose nk := choose_mono_half hk1 hnk
    have hC1lt : n.choose (k + 1) < 2 ^ 64 := lt_of_le_of_lt hC1 hfit
    have hstep := step_exact n k
    set c := n.choose k with hc
    -- the guard does not fire
    have hguard : ¬ (c / (k + 1) > u64Max / nk) := by
      intro hg
      have h1 : u64Max < nk * (u64Max / nk + 1) := Nat.lt_mul_div_succ u64Max hnkpos
      have h2 : nk * (u64Max / nk + 1) ≤ nk * (c / (k + 1)) := Nat.mul_le_mul_left _ hg
      have h3 : nk * (c / (k + 1)) ≤ (c / (k + 1)) * (n - k) := by
        rw [Nat.mul_comm]; exact Nat.mul_le_mul_left _ (by omega)
      have h4 : (c / (k + 1)) * (n - k) ≤ n.choose (k + 1) := by rw [← hstep]; exact Nat.le_add_right _ _
      have : u64Max < 2 ^ 64 - 1 + 0 := by
        have := lt_of_lt_of_le (lt_of_lt_of_le (lt_of_lt_of_le h1 h2) h3) h4
        unfold u64Max at this ⊢; omega
      unfold u64Max at this; omega
    -- no 64-bit overflow
    have ha : c / (k + 1) * (n - k) ≤ u64Max := by
      have h4 : (c / (k + 1)) * (n - k) ≤ n.choose (k + 1) := by rw [← hstep]; exact Nat.le_add_right _ _
      unfold u64Max; omega
    have hb : c % (k + 1) * (n - k) ≤ u64Max := by
      rcases Nat.eq_zero_or_pos k with h0 | hpos
      · subst h0; simp [Nat.mod_one]
      · have hlt : c % (k + 1) ≤ k + 1 := le_of_lt (Nat.mod_lt _ (Nat.succ_pos k))
        have h1 : c % (k + 1) * (n - k) ≤ (k + 1) * (n - (k + 1) + 1) := by
          rw [hm]; exact Nat.mul_le_mul_right _ hlt
        have h2 := rem_prod_le n (k + 1) (by omega) (by omega)
        have h3 : n.choose 2 ≤ n.choose nk := choose_mono_half (by omega) hnk
        unfold u64Max; omega
    have hsum : c / (k + 1) * (n - k) + c % (k + 1) * (n - k) / (k + 1) ≤ u64Max := by
      rw [hstep]; unfold u64Max; omega
    have hnov : ¬ (c / (k + 1) * (n - k) > u64Max ∨ c % (k + 1) * (n - k) > u64Max ∨
        c / (k + 1) * (n - k) + c % (k + 1) * (n - k) / (k + 1) > u64Max) := by
      omega
    rw [binomGo]
    simp only [hm]
    rw [if_neg hguard, if_neg hnov, hstep]
    exact ih (k + 1) (by omega)

/-- Whatever the size of `C(n,nk)`: if the loop started at step `k+1` with `c = C(n,k)` returns a value, that value is
`C(n,nk)`: a value that does not fit is always stopped by the guard or by an overflow check. -/
theorem binomGo_val_imp (n nk : Nat) (hnk : nk ≤ n) :
    ∀ steps k v, k + steps = nk → binomGo n nk steps (k + 1) (n.choose k) = .val v → v = n.choose nk := by
  intro steps
  induction steps with
  | zero =>
    intro k v hk h
    simp only [Nat.add_zero] at hk; subst hk
    simp only [binomGo, BinomOut.val.injEq] at h
    exact h.symm
  | succ s ih =>
    intro k v hk h
    have hm : n - (k + 1) + 1 = n - k := by omega
    rw [binomGo] at h
    dsimp only at h
    rw [hm] at h
    split at h
    · cases h
    · split at h
      · cases h
      · rw [step_exact n k] at h
        exact ih (k + 1) v (by omega) h

/-- ... and that value fits in 64 bits (the last update passed its overflow checks). -/
theorem binomGo_val_fits (n nk : Nat) (hnk : nk ≤ n) :
    ∀ steps k v, k + steps = nk → n.choose k < 2 ^ 64 → binomGo n nk steps (k + 1) (n.choose k) = .val v → v < 2 ^ 64 := by
  intro steps
  induction steps with
  | zero =>
    intro k v hk hc h
    simp only [binomGo, BinomOut.val.injEq] at h
    omega
  | succ s ih =>
    intro k v hk hc h
    have hm : n - (k + 1) + 1 = n - k := by omega
    rw [binomGo] at h
    dsimp only at h
    rw [hm] at h
    split at h
    · cases h
    · split at h
      · cases h
      · rename_i hnov
        rw [step_exact n k] at h hnov
        exact ih (k + 1) v (by omega) (by unfold u64Max at hnov; omega) h

end Cv.C17
