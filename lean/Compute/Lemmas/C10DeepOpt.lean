import Compute.Lemmas.C10DeepDiff
import Compute.Lemmas.C10DeepEval
import Compute.Lemmas.C10
/-
C10 (deep) — the gradient oracles of Adam / SGD (`gradAt`, and for Nesterov `gradAtLookAhead`, whose
tape holds the parameters as leaves and the look-ahead points as extra nodes) return the TRUE
gradient `∇f` of the program's real-valued function, and a loop that returns with one oracle returns
the same with any oracle that agrees wherever the first one succeeds.
-/
namespace Cv.C10D
open Cv Cv.AD Cv.Opt Cv.C10
open Cv.C09

set_option linter.unusedSectionVars false
set_option linter.unusedVariables false

/-- the point `θ` as an element of `ℝⁿ` -/
def vec (θ : List ℝ) : Pt θ.length := fun i => θ[i]

/-- **the true gradient** of the function denoted by `prog` at `θ`: the list of the partial
derivatives `∂f/∂θⱼ = fderiv f θ eⱼ` (`none` if the program is ill-formed in `θ.length` parameters) -/
noncomputable def gradTrue (prog : List (Op ℝ)) (θ : List ℝ) : Option (List ℝ) :=
  (denote prog θ.length none).map fun f =>
    List.ofFn fun j : Fin θ.length => fderiv ℝ f (vec θ) (Pi.single j 1)

theorem sEval_true (prog : List (Op ℝ)) (θ : List ℝ) (v : ℝ) (d : Nat → ℝ)
    (hs : sEval prog θ none = some (v, d)) (hN : NoConstDivVar prog) (hP : PowiRange prog)
    (hD : InDomain prog θ.length none (vec θ)) :
    gradTrue prog θ = some ((List.range θ.length).map d) := by
  obtain ⟨f, hf, _, F', hF, hrow⟩ := sEval_diff prog θ none v d hs hN hP hD
  unfold gradTrue
  rw [hf]
  simp only [Option.map_some, Option.some.injEq]
  have : fderiv ℝ f (vec θ) = F' := hF.fderiv
  rw [this]
  apply List.ext_getElem
  · simp
  · intro i h1 h2
    simp only [List.getElem_ofFn, List.getElem_map, List.getElem_range]
    exact hrow ⟨i, by simpa using h1⟩

/-- the gradient Adam and plain / momentum SGD use is the true gradient -/
theorem gradAt_true (prog : List (Op ℝ)) (θ g : List ℝ) (h : gradAt prog θ = some g)
    (hN : NoConstDivVar prog) (hP : PowiRange prog) (hD : InDomain prog θ.length none (vec θ)) :
    gradTrue prog θ = some g := by
  obtain ⟨v, d, hs, hg⟩ := gradAt_sem prog θ g h
  rw [hg]
  exact sEval_true prog θ v d hs hN hP hD

section lookahead
variable [BEq ℝ] [FMax ℝ]

theorem lookAhead_eq_addDelta : ∀ (ps : List (Var ℝ)) (us : List ℝ) (t : Tape ℝ) (mom : ℝ),
    lookAhead t mom ps us = addDelta t ps (us.map fun u => -(mom * u))
  | [], us, t, mom => by cases us <;> rfl
  | p :: ps, [], t, mom => rfl
  | p :: ps, u :: us, t, mom => by
    have ih := lookAhead_eq_addDelta ps us (subVC t p (mom * u)).2 mom
    simp only [lookAhead, List.map_cons, addDelta]
    rw [ih]
    rfl

theorem lookPoint_eq_zip (mom : ℝ) (θ u : List ℝ) :
    List.zipWith (· + ·) θ (u.map fun u => -(mom * u)) = lookPoint mom θ u := by
  unfold lookPoint
  rw [List.zipWith_map_right]

/-- the gradient Nesterov-SGD uses (objective evaluated at look-ahead nodes of the tape and
differentiated w.r.t. them) is the true gradient at the look-ahead point `θ − μ·u` -/
theorem gradAtLookAhead_true (prog : List (Op ℝ)) (mom : ℝ) (θ u g : List ℝ)
    (h : gradAtLookAhead prog mom θ u = some g)
    (hN : NoConstDivVar prog) (hP : PowiRange prog)
    (hD : InDomain prog (lookPoint mom θ u).length none (vec (lookPoint mom θ u))) :
    gradTrue prog (lookPoint mom θ u) = some g := by
  unfold gradAtLookAhead at h
  simp only at h
  obtain ⟨hp, hG⟩ := fresh_good θ
  rw [lookAhead_eq_addDelta] at h
  obtain ⟨hq, hGq⟩ := addDelta_good hp hG (u.map fun u => -(mom * u))
  rw [lookPoint_eq_zip] at hq hGq
  split at h
  · exact absurd h (by simp)
  next r t' he =>
    simp only [Option.some.injEq] at h
    obtain ⟨v, d, hs, _, _, _, hg, _, _⟩ := evalProg_sem prog hq hGq r he
    rw [← h, hg]
    exact sEval_true prog _ v d hs hN hP hD

end lookahead

/-! ### loops that return with one step function return the same with an agreeing one -/

theorem runLoop_agree_on {σ : Type} (step1 step2 : Nat → σ → Option σ) (stopped : σ → σ → Bool)
    (hag : ∀ t s s', step1 t s = some s' → step2 t s = some s') :
    ∀ (fuel t : Nat) (s r : σ), runLoop step1 stopped fuel t s = some r →
      runLoop step2 stopped fuel t s = some r
  | 0, t, s, r, h => h
  | fuel + 1, t, s, r, h => by
    simp only [runLoop] at h ⊢
    cases h1 : step1 (t + 1) s with
    | none => simp [h1] at h
    | some s' =>
      rw [hag _ _ _ h1]
      simp only [h1] at h ⊢
      split at h
      next hst => simp only [hst, if_true]; exact h
      next hst =>
        simp only [hst]
        exact runLoop_agree_on step1 step2 stopped hag fuel (t + 1) s' r h

end Cv.C10D
