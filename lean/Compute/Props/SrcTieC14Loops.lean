import Compute.Model.Poly
import Compute.Generated.SrcC14Loops
/-
Source tie for C14, iterator chains (`src/predict/polynomial.rs`): `PolynomialRegressor::predict`.

The body `x.iter().map(|val| self.coef.iter().rev().fold(0., |acc, coeff| acc * val + coeff)).collect()` is
regenerated from the source (`Compute/Generated/SrcC14Loops.lean`): `.rev()` = `List.reverse`, `.fold` =
`List.foldl` from `0`, the step `acc * val + coeff` with its operand order.  It IS the hand model
`Cv.Poly.predict` (= `x.map (horner coef)`): `rfl`, for every scalar type.  `fit` (matrix products, inverse) is
outside the subset.
-/
set_option linter.unusedSectionVars false
namespace Cv.SrcTie.C14Loops

variable {α : Type} [Add α] [Sub α] [Mul α] [Div α] [Neg α] [Zero α] [One α] [NatCast α] [IntCast α]
  [LT α] [DecidableLT α] [LE α] [DecidableLE α] [BEq α] [Cv.Transc α] [Inhabited α]

/-- `PolynomialRegressor::predict`: Horner fold over the reversed coefficients for each input. -/
theorem predict_eq (coef x : List α) : Cv.Src.C14Loops.predict coef x = Cv.Poly.predict coef x := rfl

/-- The per-input fold is the model's `horner`. -/
theorem horner_eq (coef : List α) (v : α) :
    List.foldl (fun (acc : α) (coeff : α) => acc * v + coeff) 0 (List.reverse coef) = Cv.Poly.horner coef v := rfl

end Cv.SrcTie.C14Loops
