import Compute.Lemmas.C02Moments
import Mathlib.NumberTheory.Harmonic.GammaDeriv
import Mathlib.Analysis.SpecialFunctions.Gamma.Deriv
import Mathlib.Analysis.SpecialFunctions.ImproperIntegrals
import Mathlib.MeasureTheory.Function.JacobianOneDim
import Mathlib.Analysis.Complex.RealDeriv
/-
Analysis lemmas for the Gumbel mean (`Props/C02Moments.lean`): `∫₀^∞ log t · e^{-t} dt = -γ` (from Mathlib's derivative of the
Gamma integral and `Γ'(1) = -γ`), and the change of variables `t = exp (-(x-μ)/β)` that turns `∫ x · pdf x dx` into
`∫₀^∞ (μ - β log t) e^{-t} dt = μ + βγ`.
-/
open MeasureTheory Set Filter Topology

namespace Cv.C02M

/-- `∫₀^∞ log t · e^{-t} dt = Γ'(1) = -γ` (Euler–Mascheroni), absolutely convergent. -/
theorem integral_log_mul_exp_neg :
    IntegrableOn (fun t : ℝ => Real.log t * Real.exp (-t)) (Ioi 0) ∧
      ∫ t in Ioi (0 : ℝ), Real.log t * Real.exp (-t) = -Real.eulerMascheroniConstant := by
  have key : ∀ F : ℝ → ℂ, HasDerivAt Complex.GammaIntegral (∫ t in Ioi (0 : ℝ), F t) 1 →
      (∀ t ∈ Ioi (0 : ℝ), (F t).re = Real.log t * Real.exp (-t)) →
      IntegrableOn (fun t : ℝ => Real.log t * Real.exp (-t)) (Ioi 0) ∧
        ∫ t in Ioi (0 : ℝ), Real.log t * Real.exp (-t) = -Real.eulerMascheroniConstant := by
    intro F hC hre
    set I : ℂ := ∫ t in Ioi (0 : ℝ), F t with hI
    have hG : HasDerivAt Complex.Gamma I 1 := by
      refine hC.congr_of_eventuallyEq ?_
      have h1 : ∀ᶠ s : ℂ in 𝓝 1, 0 < s.re :=
        Complex.continuous_re.continuousAt.eventually (lt_mem_nhds (by simp : (0 : ℝ) < (1 : ℂ).re))
      filter_upwards [h1] with s hs using Complex.Gamma_eq_integral hs
    have hR : HasDerivAt Real.Gamma I.re 1 := by
      have h := HasDerivAt.real_of_complex (e := Complex.Gamma) (e' := I) (z := 1) (by simpa using hG)
      exact h
    have hIre : I.re = -Real.eulerMascheroniConstant := hR.unique Real.hasDerivAt_Gamma_one
    have hne : I ≠ 0 := by
      intro h0
      have : (0 : ℝ) = -Real.eulerMascheroniConstant := by rw [← hIre, h0]; rfl
      linarith [Real.one_half_lt_eulerMascheroniConstant]
    have hF : IntegrableOn F (Ioi 0) := Integrable.of_integral_ne_zero hne
    have hFre : IntegrableOn (fun t => (F t).re) (Ioi 0) := hF.re
    refine ⟨hFre.congr_fun hre measurableSet_Ioi, ?_⟩
    rw [← setIntegral_congr_fun measurableSet_Ioi hre, ← hIre, hI]
    have := integral_re hF
    simpa using this
  refine key _ (Complex.hasDerivAt_GammaIntegral (s := 1) (by simp)) ?_
  intro t ht
  simp only [sub_self, Complex.cpow_zero, one_mul]
  rw [← Complex.ofReal_mul, Complex.ofReal_re]

theorem integrableOn_exp_neg_Ioi_zero : IntegrableOn (fun t : ℝ => Real.exp (-t)) (Ioi 0) :=
  Integrable.of_integral_ne_zero (by rw [integral_exp_neg_Ioi_zero]; exact one_ne_zero)

/-- `∫₀^∞ (μ - β log t) e^{-t} dt = μ + βγ`. -/
theorem integral_gumbel_aux (μ β : ℝ) :
    IntegrableOn (fun t : ℝ => (μ - β * Real.log t) * Real.exp (-t)) (Ioi 0) ∧
      ∫ t in Ioi (0 : ℝ), (μ - β * Real.log t) * Real.exp (-t) = μ + β * Real.eulerMascheroniConstant := by
  have h1 := integrableOn_exp_neg_Ioi_zero
  have h2 := integral_log_mul_exp_neg
  have hf : (fun t : ℝ => (μ - β * Real.log t) * Real.exp (-t)) =
      fun t => μ * Real.exp (-t) - β * (Real.log t * Real.exp (-t)) := by funext t; ring
  have i1 : IntegrableOn (fun t : ℝ => μ * Real.exp (-t)) (Ioi 0) := h1.const_mul μ
  have i2 : IntegrableOn (fun t : ℝ => β * (Real.log t * Real.exp (-t))) (Ioi 0) := h2.1.const_mul β
  rw [hf]
  refine ⟨i1.sub i2, ?_⟩
  rw [integral_sub i1 i2, integral_const_mul, integral_const_mul, integral_exp_neg_Ioi_zero, h2.2]
  ring

/-- The Gumbel density `1/β · exp (-(z + e^{-z}))`, `z = (x - μ)/β`. -/
noncomputable def gumbelPdfR (μ β x : ℝ) : ℝ := 1 / β * Real.exp (-((x - μ) / β + Real.exp (-((x - μ) / β))))

/-- **Gumbel(μ, β)**, `β > 0`: `∫ x · pdf x dx = μ + βγ`, absolutely convergent. -/
theorem gumbel_mean_integral (μ β : ℝ) (hβ : 0 < β) :
    Integrable (fun x => x * gumbelPdfR μ β x) ∧ ∫ x, x * gumbelPdfR μ β x = μ + β * Real.eulerMascheroniConstant := by
  set f : ℝ → ℝ := fun x => Real.exp (-((x - μ) / β)) with hf
  set f' : ℝ → ℝ := fun x => Real.exp (-((x - μ) / β)) * -(1 / β) with hf'
  set g : ℝ → ℝ := fun t => (μ - β * Real.log t) * Real.exp (-t) with hg
  have hderiv : ∀ x ∈ (univ : Set ℝ), HasDerivWithinAt f (f' x) univ x := by
    intro x _
    have h1 : HasDerivAt (fun y : ℝ => -((y - μ) / β)) (-(1 / β)) x :=
      (((hasDerivAt_id x).sub_const μ).div_const β).neg
    exact h1.exp.hasDerivWithinAt
  have hinj : InjOn f univ := by
    intro x _ y _ hxy
    have := Real.exp_injective hxy
    have hb := hβ.ne'
    field_simp at this
    linarith
  have himg : f '' univ = Ioi 0 := by
    rw [image_univ]
    have hs : Function.Surjective fun x : ℝ => -((x - μ) / β) := by
      intro y
      refine ⟨μ - β * y, ?_⟩
      have hb := hβ.ne'
      field_simp
      ring
    have : f = Real.exp ∘ fun x : ℝ => -((x - μ) / β) := rfl
    rw [this, range_comp, hs.range_eq, image_univ, Real.range_exp]
  have hkey : ∀ x, |f' x| • g (f x) = x * gumbelPdfR μ β x := by
    intro x
    have hb := hβ.ne'
    have habs : |f' x| = Real.exp (-((x - μ) / β)) / β := by
      simp only [hf']
      rw [abs_mul, abs_of_pos (Real.exp_pos _), abs_neg, abs_of_pos (one_div_pos.mpr hβ)]
      ring
    have hx : μ - β * Real.log (f x) = x := by
      simp only [hf, Real.log_exp]
      field_simp
      ring
    simp only [hg, gumbelPdfR, smul_eq_mul]
    rw [habs, hx, neg_add, Real.exp_add]
    ring
  have haux := integral_gumbel_aux μ β
  refine ⟨?_, ?_⟩
  · have := (integrableOn_image_iff_integrableOn_abs_deriv_smul MeasurableSet.univ hderiv hinj g).mp
      (himg ▸ haux.1)
    rw [integrableOn_univ] at this
    exact this.congr (ae_of_all _ hkey)
  · have := integral_image_eq_integral_abs_deriv_smul MeasurableSet.univ hderiv hinj g
    rw [himg, setIntegral_univ] at this
    rw [← haux.2, this]
    exact integral_congr_ae (ae_of_all _ fun x => (hkey x).symm)

end Cv.C02M
