import Compute.Lemmas.LuCorrect3
import Mathlib.Algebra.BigOperators.Ring.Finset
/-
An upper triangular matrix with a zero on its diagonal has a non-trivial kernel (constructed by
back substitution on the leading block); used to show that `lu` of a non-singular matrix has no zero
pivot.
-/
set_option linter.unusedSectionVars false
set_option linter.unusedVariables false
namespace Cv.LA.Lu
open Finset

section kernel
variable {F : Type} [Field F]

/-- an upper triangular system with non-zero diagonal is solvable (leading `c × c` block) -/
theorem tri_solve (U : Nat → Nat → F) (c : Nat) (hd : ∀ k, k < c → U k k ≠ 0) :
    ∀ y : Nat → F, ∃ v : Nat → F, ∀ k, k < c → ∑ j ∈ Ico k c, U k j * v j = y k := by
  induction c with
  | zero => intro y; exact ⟨fun _ => 0, fun k hk => by omega⟩
  | succ c ih =>
    intro y
    obtain ⟨v', hv'⟩ := ih (fun k hk => hd k (by omega)) (fun k => y k - U k c * (y c / U c c))
    refine ⟨fun j => if j = c then y c / U c c else v' j, ?_⟩
    intro k hk
    rw [Finset.sum_Ico_succ_top (by omega)]
    beta_reduce
    have hlow : ∑ j ∈ Ico k c, U k j * (if j = c then y c / U c c else v' j) =
        ∑ j ∈ Ico k c, U k j * v' j := by
      apply Finset.sum_congr rfl
      intro j hj
      have := Finset.mem_Ico.mp hj
      rw [if_neg (by omega)]
    rw [hlow, if_pos rfl]
    by_cases hkc : k = c
    · subst hkc
      have := hd k (by omega)
      simp
      field_simp
    · rw [hv' k (by omega)]
      ring

/-- if `U[c,c] = 0` and the earlier diagonal entries are non-zero, some `v` with `v c = 1` has `U·v = 0` -/
theorem upper_kernel (n : Nat) (f : List F) (c : Nat) (hc : c < n) (hz : ent n f c c = 0)
    (hd : ∀ k, k < c → ent n f k k ≠ 0) :
    ∃ v : Nat → F, v c = 1 ∧ ∀ k, k < n → ∑ j ∈ range n, Uent n f k j * v j = 0 := by
  obtain ⟨v', hv'⟩ := tri_solve (fun k j => ent n f k j) c hd (fun k => - ent n f k c)
  refine ⟨fun j => if j < c then v' j else if j = c then 1 else 0, by simp, ?_⟩
  intro k hk
  rw [← Finset.sum_range_add_sum_Ico _ (show c + 1 ≤ n by omega), Finset.sum_range_succ]
  beta_reduce
  have htail : ∑ j ∈ Ico (c + 1) n, Uent n f k j * (if j < c then v' j else if j = c then 1 else 0) = 0 := by
    apply Finset.sum_eq_zero
    intro j hj
    have := Finset.mem_Ico.mp hj
    rw [if_neg (by omega), if_neg (by omega), mul_zero]
  have hhead : ∑ j ∈ range c, Uent n f k j * (if j < c then v' j else if j = c then 1 else 0) =
      ∑ j ∈ range c, Uent n f k j * v' j := by
    apply Finset.sum_congr rfl
    intro j hj
    rw [if_pos (Finset.mem_range.mp hj)]
  rw [htail, hhead, if_neg (Nat.lt_irrefl c), if_pos rfl, mul_one, add_zero]
  by_cases hkc : k < c
  · rw [← Finset.sum_range_add_sum_Ico _ (Nat.le_of_lt hkc)]
    have h0 : ∑ j ∈ range k, Uent n f k j * v' j = 0 := by
      apply Finset.sum_eq_zero
      intro j hj
      have hj' := Finset.mem_range.mp hj
      have : ¬ k ≤ j := by omega
      simp [Uent, this]
    have h1 : ∑ j ∈ Ico k c, Uent n f k j * v' j = ∑ j ∈ Ico k c, ent n f k j * v' j := by
      apply Finset.sum_congr rfl
      intro j hj
      have := Finset.mem_Ico.mp hj
      have h2 : k ≤ j := by omega
      simp [Uent, h2]
    have h3 : Uent n f k c = ent n f k c := by simp [Uent, Nat.le_of_lt hkc]
    rw [h0, h1, hv' k hkc, h3]
    ring
  · have h0 : ∑ j ∈ range c, Uent n f k j * v' j = 0 := by
      apply Finset.sum_eq_zero
      intro j hj
      have hj' := Finset.mem_range.mp hj
      have : ¬ k ≤ j := by omega
      simp [Uent, this]
    rw [h0, zero_add]
    by_cases hkc' : k = c
    · subst hkc'; simp [Uent, hz]
    · have : ¬ k ≤ c := by omega
      simp [Uent, this]

end kernel
end Cv.LA.Lu
