import Compute.Lemmas.C04Kernels
import Compute.Lemmas.C04Rows
import Compute.Lemmas.C04Maps
import Compute.Lemmas.C04Powi
import Compute.Lemmas.C04Reductions
import Compute.Lemmas.C04Real
/-
C04 — element-wise arithmetic and maps are exact at every length and operand form.

Property theorems about the model of `vops.rs` (`Model/Vops.lean`), of the operator / map surface of
`Vector` and `Matrix` evaluated through the generated wiring table (`Model/VecOps.lean`,
`Generated/C04Wiring.lean`) and of the reductions of `utils.rs` (`Model/Kernels.lean`, `Model/VecOps.lean`).
Element type `α`, operators and scalar functions are arbitrary unless stated; `none` = panic.
Helper lemmas: `Lemmas/C04Kernels.lean` (8-way induction), `Lemmas/C04Rows.lean` (wiring predicate, row
semantics), `Lemmas/C04Maps.lean` (maps, `powi`), `Lemmas/C04Reductions.lean`, `Lemmas/C04Real.lean` (ℝ).
-/
namespace Cv.C04
open Cv Cv.Vops Cv.VecOps Cv.C04W
variable {α : Type}

/-! ## 1. Every unrolled kernel is the plain element-wise form at every length -/

/-- `makefn_vops_binary!`: `zipWith` at every length (every residue mod 8); a length mismatch panics. -/
theorem vbin_spec (op : α → α → α) (x y : List α) :
    vbin op x y = if x.length = y.length then some (List.zipWith op x y) else none := by
  simp [vbin, vbinGo_eq]

/-- `makefn_vops_binary_mut!`: the new left operand is `zipWith`; a length mismatch panics. -/
theorem vbinMut_spec (op : α → α → α) (x y : List α) :
    vbinMut op x y = if x.length = y.length then some (List.zipWith op x y) else none := by
  simp [vbinMut, vbinMutGo_eq]

/-- `makefn_vsops!`: `x[i] op s` — the scalar is the *right* operand. -/
theorem vs_spec (op : α → α → α) (x : List α) (s : α) : vs op x s = x.map (op · s) := vs_eq op x s

/-- `makefn_vsops_mut!`. -/
theorem vsMut_spec (op : α → α → α) (x : List α) (s : α) : vsMut op x s = x.map (op · s) := vsMut_eq op x s

/-- `makefn_svops!`: `s op x[i]` — the scalar is the *left* operand. -/
theorem sv_spec (op : α → α → α) (s : α) (x : List α) : sv op s x = x.map (op s ·) := sv_eq op s x

/-- `makefn_vops_unary!`. -/
theorem vun_spec (f : α → α) (x : List α) : vun f x = x.map f := vun_eq f x

/-- `makefn_vops_unary_with_arg_f!` (`powf`). -/
theorem vunArgF_spec (f : α → α → α) (p : α) (x : List α) : vunArgF f p x = x.map (f · p) := vunArgF_eq f p x

/-- Position-wise reading of `vbin_spec`: the result has the operands' length and position `i` holds
the scalar operation applied to the two elements at position `i`. -/
theorem vbin_get (op : α → α → α) (x y z : List α) (h : vbin op x y = some z) :
    z.length = x.length ∧ x.length = y.length ∧
    ∀ i (hx : i < x.length) (hy : i < y.length) (hz : i < z.length), z[i] = op x[i] y[i] := by
  rw [vbin_spec] at h
  split at h
  · next hl =>
    cases h
    refine ⟨by simp [hl], hl, ?_⟩
    intro i hx hy hz
    simp
  · cases h

example : vbin (· - ·) [9, 8, 7, 6, 5, 4, 3, 2, 1] [1, 1, 1, 1, 1, 1, 1, 1, 1] = some [8, 7, 6, 5, 4, 3, 2, 1, 0] := rfl
example : vbin (· - ·) [1, 2, 3] [1, 2] = none := rfl
example : sv (· - ·) 10 [1, 2, 3, 4, 5, 6, 7, 8, 9] = [9, 8, 7, 6, 5, 4, 3, 2, 1] := rfl
example : vs (· - ·) [11, 12, 13, 14, 15, 16, 17, 18, 19] 10 = [1, 2, 3, 4, 5, 6, 7, 8, 9] := rfl

/-! ## 2. `vpowi`: the exponent-2/3 special case lives in full chunks only -/

/-- `makefn_vops_unary_with_arg_i!`: positions inside full chunks of 8 get `x*x` (n = 2), `x*x*x`
(n = 3), otherwise `f x n`; the remainder positions always get the scalar method `f x n`. -/
theorem vpowi_spec (mul : α → α → α) (f : α → Int → α) (n : Int) (x : List α) :
    vunArgI mul f n x =
      (x.take (8 * (x.length / 8))).map (powiChunk mul f n) ++ (x.drop (8 * (x.length / 8))).map (f · n) :=
  vunArgI_spec mul f n x

/-- Under `f x 2 = x*x` and `f x 3 = x*x*x` the kernel is the plain map of the scalar method. -/
theorem vpowi_eq_map (mul : α → α → α) (f : α → Int → α) (n : Int) (x : List α)
    (h2 : ∀ a, f a 2 = mul a a) (h3 : ∀ a, f a 3 = mul (mul a a) a) :
    vunArgI mul f n x = x.map (f · n) := vunArgI_eq_map mul f n x h2 h3

/-- The two hypotheses hold for the square-and-multiply `powi` in every commutative monoid, hence
`vpowi` is `map (powi · n)` there (IEEE `*` is commutative; no associativity is used). -/
theorem vpowi_eq_map_powi [CommMonoid α] [Div α] (n : Int) (x : List α) :
    vunArgI (· * ·) powi n x = x.map (powi · n) :=
  vunArgI_eq_map _ _ n x (fun a => powi_two a) (fun a => powi_three a)

/-- In a field the whole kernel is `x ↦ xⁿ` (integer power) at every position, for every `i32` exponent. -/
theorem vpowi_eq_map_zpow [Field α] (n : Int) (hn : n.natAbs < 2 ^ 64) (x : List α) :
    vunArgI (· * ·) powi n x = x.map (· ^ n) := by
  rw [vpowi_eq_map_powi]
  apply List.map_congr_left
  intro a _
  exact powi_eq_zpow a n hn

example : vunArgI (· * ·) powi (-2) [(2 : ℚ), 1, 4] = [1 / 4, 1, 1 / 16] := by
  rw [vpowi_eq_map_zpow _ (by decide)]; norm_num

example : vunArgI (· * ·) (fun (a : Nat) _ => a + 1000) 2 [1, 2, 3, 4, 5, 6, 7, 8, 9, 10] =
    [1, 4, 9, 16, 25, 36, 49, 64, 1009, 1010] := rfl

/-! ## 3. Wiring: every operator form computes the scalar operation of its own trait at each position -/

/-- every kernel family exists exactly once for each of the four operator tokens (20 kernels) -/
theorem kernels_complete :
    ∀ fam ∈ [Fam.binary, .binaryMut, .vs, .vsMut, .sv], ∀ t ∈ [Tok.add, .sub, .mul, .div],
      (allKerns.filter (kdef · == ⟨fam, some t, none⟩)).length = 1 := by decide

theorem vecOpRows_kinds : ∀ r ∈ vecOpRows, tyKind r.self ≠ .mat ∧ tyKind r.other ≠ .mat := by decide

/-- **Vector operator forms.**  For every `impl std::ops::…` of vec.rs with Vector / &Vector / f64
operands (44 rows: 4 operators × owned/borrowed × vector, scalar-left, scalar-right, assign), applied
to operands of the row's types, the result is the element-wise scalar operation *of the row's own
trait*, in the operand order `self op other`; vector ∘ vector of different lengths panics. -/
theorem vector_forms_exact [Inhabited α] (op : Tok → α → α → α) (r : OpRow) (hr : r ∈ vecOpRows)
    (self other : Val α) (hs : valKind self = tyKind r.self) (ho : valKind other = tyKind r.other) :
    evalRow op r self other = elemSpec (op (tokOf r.trait)) self other := by
  obtain ⟨k1, k2⟩ := vecOpRows_kinds r hr
  apply evalRow_spec op r self other (vecOpRows_wellWired r hr) hs ho
  · cases self <;> simp_all [valKind, ValWF]
  · cases other <;> simp_all [valKind, ValWF]
  · intro _ a b ha; subst ha; simp_all [valKind]

/-- **Matrix operator forms** (matrix.rs, 44 rows with Matrix / &Matrix / f64 operands), for
well-formed matrices: element-wise scalar operation of the row's trait, shape preserved;
`Matrix op= Matrix` with different shapes panics.  (`Matrix op Matrix` with *different* shapes is
broadcasting — property C12 — and is excluded by `hsh`.) -/
theorem matrix_forms_exact [Inhabited α] (op : Tok → α → α → α) (r : OpRow) (hr : r ∈ matOpRows)
    (self other : Val α) (hs : valKind self = tyKind r.self) (ho : valKind other = tyKind r.other)
    (wfs : ValWF self) (wfo : ValWF other) (hsh : isAssign r.trait = false → SameShapeIfMats self other) :
    evalRow op r self other = elemSpec (op (tokOf r.trait)) self other :=
  evalRow_spec op r self other (matOpRows_wellWired r hr) hs ho wfs wfo hsh

/-- the error branch: compound assignment between matrices of different shapes panics -/
theorem matrix_assign_shape_mismatch [Inhabited α] (op : Tok → α → α → α) (r : OpRow) (hr : r ∈ matOpRows)
    (a b : Mat α) (hA : isAssign r.trait = true) (hs : tyKind r.self = .mat) (ho : tyKind r.other = .mat)
    (wa : a.WF) (wb : b.WF) (hne : ¬ (a.nrows = b.nrows ∧ a.ncols = b.ncols)) :
    evalRow op r (.mat a) (.mat b) = none := by
  rw [matrix_forms_exact op r hr (.mat a) (.mat b) (by simp [valKind, hs]) (by simp [valKind, ho]) wa wb
    (by simp [hA])]
  simp [elemSpec, hne]

-- non-vacuity: the row `f64 - &Vector` on a length-9 vector, and `Matrix -= &Matrix`
example : ∃ r ∈ vecOpRows, r.trait = .sub ∧ r.self = .f64 ∧ r.other = .vectorRef ∧
    evalRow (fun t => match t with | .add => Nat.add | .sub => Nat.sub | .mul => Nat.mul | .div => Nat.div) r
      (.scal 10) (.vec [1, 2, 3, 4, 5, 6, 7, 8, 9]) = elemSpec Nat.sub (.scal 10) (.vec [1, 2, 3, 4, 5, 6, 7, 8, 9]) :=
  ⟨⟨.sub, .f64, .vectorRef, .kern .svsub, .self, .other, .none, false⟩, by decide, rfl, rfl, rfl, rfl⟩

/-! ### Unary maps, `powi`, `powf`, negation -/

/-- all 29 map methods of `Vector`: `map` of the scalar method of the same name -/
theorem vector_maps_exact (I : Interp α) (m : UFn) (hm : isMapMethod m = true) (x : List α) :
    vecMap I m x = some (x.map (I.ufn m)) := vecMap_spec I m hm x

/-- all 29 map methods of `Matrix`: same, shape preserved -/
theorem matrix_maps_exact (I : Interp α) (m : UFn) (hm : isMapMethod m = true) (a : Mat α) (wf : a.WF) :
    matMap I m a = some ⟨a.data.map (I.ufn m), a.nrows, a.ncols⟩ := matMap_spec I m hm a wf

/-- there are exactly 29 map methods -/
theorem map_methods_count : vecMaps.length = 29 ∧ matMaps.length = 29 := by decide

/-! ## 4. Reductions in exact arithmetic -/

/-- **`sum`** (shared kernel `Cv.sum8`): the 8-way unrolled sum equals the plain sum in every
additive monoid (only associativity and `0 + a = a` are used). -/
theorem sum8_eq_sum [AddMonoid α] (x : List α) : sum8 x = x.sum := by
  rw [sum8, sum8Go_eq, zero_add]

/-- **`dot`** (shared kernel `Cv.dot8`): `Σ xᵢ·yᵢ` over the common prefix, in every additive monoid
with a multiplication (in particular every (commutative) semiring). -/
theorem dot8_eq_sum_mul [AddMonoid α] [Mul α] (x y : List α) :
    dot8 x y = (List.zipWith (· * ·) x y).sum := by
  rw [dot8, dot8Go_eq, zero_add]

/-- `utils::dot` with its assert. -/
theorem dot?_spec [AddMonoid α] [Mul α] (x y : List α) :
    dot? x y = if x.length = y.length then some ((List.zipWith (· * ·) x y).sum) else none := by
  simp [dot?, dot8_eq_sum_mul]

/-- **`prod`**: `1·x₀·x₁⋯ = Π xᵢ` in every monoid. -/
theorem prodL_eq_prod [Monoid α] (x : List α) : prodL x = x.prod := by
  have h : ∀ (l : List α) (s : α), l.foldl (· * ·) s = s * l.prod := by
    intro l
    induction l with
    | nil => simp
    | cons a l ih => intro s; simp [List.foldl_cons, ih, mul_assoc]
  rw [prodL, h, one_mul]

example : sum8 [1, 2, 3, 4, 5, 6, 7, 8, 9, 10] = 55 := rfl
example : dot? [1, 2, 3] [4, 5, 6] = some 32 := rfl
example : dot? [1, 2, 3] [4, 5] = (none : Option Nat) := rfl

end Cv.C04
