//! C14 executor: polynomial regression through the public API of `compute`.
//! Requests (`tag` = free-form regime label, ignored):
//!   `fit <tag> <deg> <vec x> <vec y>`       PolynomialRegressor::new(deg).fit(x, y) -> `= <vec coef>`
//!   `predict <tag> <vec coef> <vec x>`      regressor with the given `coef`, `.predict(x)` -> `= <vec>`
//!   `fitpred <tag> <deg> <vec x> <vec y> <vec xs>`   fit then predict on `xs` -> `= <vec coef> <vec pred>`
//!   `refit <tag> <deg> <k> (<vec x> <vec y>)*k`   ONE regressor fitted on each data set in turn -> `= <vec coef>`*k
//!   `vander <tag> <n> <vec x>`              `vandermonde(x, n)` -> `= <vec>`
use compute::linalg::vandermonde;
use compute::predict::PolynomialRegressor;
use cvexec::*;

fn step(_: &mut (), t: &mut Toks) -> R<String> {
    let op = t.tok()?;
    let _tag = t.tok()?;
    match op {
        "fit" => {
            let deg = t.usize()?;
            let x = t.vec()?;
            let y = t.vec()?;
            t.end()?;
            let mut p = PolynomialRegressor::new(deg);
            p.fit(&x, &y);
            Ok(ok(show_vec(&p.coef)))
        }
        "predict" => {
            let coef = t.vec()?;
            let x = t.vec()?;
            t.end()?;
            let mut p = PolynomialRegressor::new(0);
            p.coef = coef;
            Ok(ok(show_vec(&p.predict(&x))))
        }
        "fitpred" => {
            let deg = t.usize()?;
            let x = t.vec()?;
            let y = t.vec()?;
            let xs = t.vec()?;
            t.end()?;
            let mut p = PolynomialRegressor::new(deg);
            p.fit(&x, &y);
            let pr = p.predict(&xs);
            Ok(ok(format!("{} {}", show_vec(&p.coef), show_vec(&pr))))
        }
        "refit" => {
            let deg = t.usize()?;
            let k = t.usize()?;
            let mut sets = Vec::new();
            for _ in 0..k {
                let x = t.vec()?;
                let y = t.vec()?;
                sets.push((x, y));
            }
            t.end()?;
            let mut p = PolynomialRegressor::new(deg);
            let mut out: Vec<String> = Vec::new();
            for (x, y) in sets.iter() {
                p.fit(x, y);
                out.push(show_vec(&p.coef));
            }
            Ok(ok(out.join(" ")))
        }
        "vander" => {
            let n = t.usize()?;
            let x = t.vec()?;
            t.end()?;
            Ok(ok(show_vec(&vandermonde(&x, n))))
        }
        _ => Err(BadOp),
    }
}

fn main() {
    run((), step);
}
