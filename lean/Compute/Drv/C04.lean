import Compute.Drv.Common
import Compute.Model.Scalar
import Compute.Model.VecOps
import Compute.Model.VopsScalar
import Compute.Model.F64Consts
/-
Driver for C04 (model at `Float`).  Operands: `v n h1..hn` (Vector), `m r c n h1..hn` (Matrix built
by `Matrix::new(data, r, c)`), `s h` (f64).  Values in replies use the same syntax (without the
redundant count for matrices: `m r c h…`).  Requests:

  bin <tok> <selfRef> <otherRef> <operand> <operand>   self <tok> other ; reply `result | self | other` (borrowed operands echoed)
  asg <tok> <otherRef> <operand> <operand>             self <tok>= other ; reply `self' | other`
  neg <operand>
  map <ufn> <operand>            reply `result | operand`
  mapt <ufn> <operand> <vec>     same, the scalar function is given as the table x[i] ↦ t[i]
  powi <n> <operand> ; powf <h> <operand>
  scal <ufn> <vec> ; scali <n> <vec> ; scalf <h> <vec>     plain scalar loop
  red <name> <free|meth> <operand>     name ∈ sum prod norm max logsumexp logmeanexp
  dot <vec> <vec>
  infnorm free <nrows> <vec> ; infnorm meth <matrix operand>
  long red|dot|infnorm|ew …     the same routes on operands generated from `<kind> <seed> <n>` (lengths up to 2^17+), element-wise
                                results replied as a digest
-/
open Cv Cv.Vops Cv.VecOps Cv.C04W

def c04Tok (s : String) : Option Tok :=
  match s with
  | "add" => some .add | "sub" => some .sub | "mul" => some .mul | "div" => some .div
  | _ => none

def c04UFnNames : List (String × UFn) := [
  ("ln", .ln), ("ln_1p", .ln_1p), ("log10", .log10), ("log2", .log2), ("exp", .exp), ("exp2", .exp2),
  ("exp_m1", .exp_m1), ("sin", .sin), ("cos", .cos), ("tan", .tan), ("sinh", .sinh), ("cosh", .cosh),
  ("tanh", .tanh), ("asin", .asin), ("acos", .acos), ("atan", .atan), ("asinh", .asinh), ("acosh", .acosh),
  ("atanh", .atanh), ("sqrt", .sqrt), ("cbrt", .cbrt), ("abs", .abs), ("floor", .floor), ("ceil", .ceil),
  ("to_radians", .to_radians), ("to_degrees", .to_degrees), ("recip", .recip), ("round", .round),
  ("signum", .signum), ("powi", .powi), ("powf", .powf)]

def nanF : Float := 0.0 / 0.0

/-- Scalar `f64` methods at `Float`.  `asinh acosh atanh` are Rust std's own formulas over `ln_1p`, `hypot`, `sqrt`, `ln`
(`Cv.asinhF` …), `cbrt` is the correctly rounded cube root (`Cv.cbrtF`) — see `Model/VopsScalar.lean`; everything else
is the libm function both sides call.  `tbl` (op `mapt`) is only a fallback for methods without a `Float` spelling. -/
def floatUFn (tbl : Float → Float) : UFn → Float → Float
  | .ln => Float.log | .ln_1p => log1pF | .log10 => Float.log10 | .log2 => Float.log2
  | .exp => Float.exp | .exp2 => Float.exp2 | .exp_m1 => expm1F
  | .sin => Float.sin | .cos => Float.cos | .tan => Float.tan
  | .sinh => Float.sinh | .cosh => Float.cosh | .tanh => Float.tanh
  | .asin => Float.asin | .acos => Float.acos | .atan => Float.atan
  | .asinh => asinhF | .acosh => acoshF | .atanh => atanhF | .cbrt => cbrtF
  | .sqrt => Float.sqrt | .abs => Float.abs | .floor => Float.floor | .ceil => Float.ceil
  | .to_radians => fun x => x * Float.ofBits 0x3f91df46a2529d39
  | .to_degrees => fun x => x * Float.ofBits 0x404ca5dc1a63c1f8
  | .recip => fun x => 1.0 / x
  | .round => Float.round
  | .signum => fun x => if x.isNaN then nanF else if x.toBits >>> 63 == 1 then -1.0 else 1.0
  | _ => tbl

def tableFn (xs ts : List Float) (a : Float) : Float :=
  let key := showFloat a
  match (xs.zip ts).find? (fun p => showFloat p.1 == key) with
  | some p => p.2
  | none => nanF

def floatInterp (tbl : Float → Float) : Interp Float where
  op := fun t => match t with
    | .add => (· + ·) | .sub => (· - ·) | .mul => (· * ·) | .div => (· / ·)
  ufn := floatUFn tbl
  ufnI := fun _ x n => powi x n
  ufnF := fun _ x p => Float.pow x p
  neg := fun x => -x

def showVal : Val Float → String
  | .vec x => "v " ++ showVec x
  | .mat m => s!"m {m.nrows} {m.ncols}" ++ (if m.data.isEmpty then "" else " " ++ showFloats m.data)
  | .scal s => "s " ++ showFloat s

/-- an operand; `none` = its construction panicked (`Matrix::new` with a wrong element count) -/
def pOperand : P (Option (Val Float)) := do
  let k ← tok
  match k with
  | "v" => do let x ← pVec; pure (some (.vec x))
  | "m" => do
    let r ← pNat; let c ← pNat; let d ← pVec
    pure ((matNew d r c).map .mat)
  | "s" => do let s ← pFloat; pure (some (.scal s))
  | _ => failure

def tyOf (v : Val Float) (isRef : Nat) : Ty :=
  match v with
  | .vec _ => if isRef = 1 then .vectorRef else .vector
  | .mat _ => if isRef = 1 then .matrixRef else .matrix
  | .scal _ => .f64

def findRow (tr : Trait) (s o : Ty) : Option OpRow :=
  (vecOpRows ++ matOpRows).find? fun r => r.trait == tr && r.self == s && r.other == o

def traitOf (t : Tok) (assign : Bool) : Trait :=
  match t, assign with
  | .add, false => .add | .sub, false => .sub | .mul, false => .mul | .div, false => .div
  | .add, true => .addAssign | .sub, true => .subAssign | .mul, true => .mulAssign | .div, true => .divAssign

def echo (v : Val Float) (isRef : Nat) : String :=
  match v with
  | .scal _ => ""
  | _ => if isRef = 1 then " | " ++ showVal v else ""

def I0 : Interp Float := floatInterp (fun _ => nanF)

def isNaNF (x : Float) : Bool := x.isNaN


/-! ### `long` requests: operands built from a compact description (same generator in exec/src/bin/c04.rs and in the oracle) -/

def mixU (seed i : UInt64) : UInt64 :=
  let z := seed + i * 0x9E3779B97F4A7C15
  let z := (z ^^^ (z >>> 30)) * 0xBF58476D1CE4E5B9
  let z := (z ^^^ (z >>> 27)) * 0x94D049BB133111EB
  z ^^^ (z >>> 31)

/-- `ones`: 1.0; `iota`: (i mod 17) - 8; `hash`: (mix(seed, i) mod 13) - 6; `pm1`: ±1 from bit 40 of mix(seed, i) -/
def genData (kind : String) (seed : UInt64) (n : Nat) : Option (List Float) :=
  match kind with
  | "ones" => some (List.replicate n 1.0)
  | "iota" => some ((List.range n).map fun i => Float.ofNat (i % 17) - 8.0)
  | "hash" => some ((List.range n).map fun i => Float.ofNat ((mixU seed (UInt64.ofNat i)) % 13).toNat - 6.0)
  | "pm1" => some ((List.range n).map fun i => if ((mixU seed (UInt64.ofNat i)) >>> 40) &&& 1 == 1 then -1.0 else 1.0)
  | _ => none

/-- order-sensitive digest: `len`, Σ bits(xᵢ)·(2i+1) mod 2⁶⁴, first, last -/
def digestL (xs : List Float) : String :=
  let h := (xs.foldl (fun (acc : UInt64 × UInt64) x => (acc.1 + x.toBits * (2 * acc.2 + 1), acc.2 + 1)) (0, 0)).1
  let f := match xs.head? with | some x => showFloat x | none => "-"
  let l := match xs.getLast? with | some x => showFloat x | none => "-"
  s!"{xs.length} {natToHex16 h.toNat} {f} {l}"

def rowData (tr : Trait) (a b : Val Float) (sr orf : Nat) : Option (List Float) :=
  match findRow tr (tyOf a sr) (tyOf b orf) with
  | none => none
  | some row => (evalRow I0.op row a b).bind listOf

def pGen : P (String × UInt64 × Nat) := do
  let k ← tok; let s ← pNat; pure (k, UInt64.ofNat s, 0)

def longStep (args : List String) : String :=
  match args with
  | "red" :: name :: form :: rest =>
    withArgs (do let k ← tok; let s ← pNat; let n ← pNat; pure (k, s, n)) rest fun (k, s, n) =>
      match genData k (UInt64.ofNat s) n with
      | none => badOp
      | some d =>
        let x? : Option (List Float) := if form == "mat" then (matNew d 1 n).map (·.data) else some d
        match x? with
        | none => panicked
        | some x =>
          match name with
          | "sum" => ok (showFloat (sum8 x))
          | "prod" => ok (showFloat (prodL x))
          | "norm" => ok (showFloat (normL x))
          | "max" => ok (showFloat (maxL isNaNF nanF x))
          | "logsumexp" => ok (showFloat (logsumexpE isNaNF nanF (F64Consts.negInf (α := Float)) x))
          | "logmeanexp" => ok (showFloat (logmeanexpL isNaNF nanF x))
          | _ => badOp
  | "dot" :: _form :: rest =>
    withArgs (do let k1 ← tok; let s1 ← pNat; let k2 ← tok; let s2 ← pNat; let n ← pNat; pure (k1, s1, k2, s2, n)) rest
      fun (k1, s1, k2, s2, n) =>
        match genData k1 (UInt64.ofNat s1) n, genData k2 (UInt64.ofNat s2) n with
        | some a, some b => match dot? a b with
          | none => panicked
          | some d => ok (showFloat d)
        | _, _ => badOp
  | "infnorm" :: form :: rest =>
    withArgs (do let r ← pNat; let k ← tok; let s ← pNat; let n ← pNat; pure (r, k, s, n)) rest fun (r, k, s, n) =>
      match genData k (UInt64.ofNat s) n with
      | none => badOp
      | some d =>
        if form == "free" then
          match infNormL isNaNF nanF d r with
          | none => panicked
          | some v => ok (showFloat v)
        else
          match (matNew d r (n / r)).bind (matInfNorm I0 isNaNF nanF) with
          | none => panicked
          | some v => ok (showFloat v)
  | "ew" :: op :: rest =>
    withArgs (do let k1 ← tok; let s1 ← pNat; let k2 ← tok; let s2 ← pNat; let n ← pNat; pure (k1, s1, k2, s2, n)) rest
      fun (k1, s1, k2, s2, n) =>
        match genData k1 (UInt64.ofNat s1) n, genData k2 (UInt64.ofNat s2) n with
        | some x, some y =>
          let r : Option (List Float) :=
            match op with
            | "vadd" => rowData .add (.vec x) (.vec y) 1 1
            | "vsub" => rowData .sub (.vec x) (.vec y) 1 1
            | "vmul" => rowData .mul (.vec x) (.vec y) 1 1
            | "svmul" => rowData .mul (.scal 3.0) (.vec x) 0 1
            | "svsub" => rowData .sub (.scal 100.0) (.vec x) 0 1
            | "vssub" => rowData .sub (.vec x) (.scal 2.0) 1 0
            | "vsdiv" => rowData .div (.vec x) (.scal 4.0) 1 0
            | "asgadd" => rowData .addAssign (.vec x) (.vec y) 0 1
            | "asgsmul" => rowData .mulAssign (.vec x) (.scal 5.0) 0 0
            | "abs" => vecMap I0 .abs x
            | "powi3" => vecMapI I0 .powi x 3
            | "powi2" => vecMapI I0 .powi x 2
            | "neg" => (negVal I0.neg (.vec x)).bind listOf
            | "mmadd" =>
              match matNew x 1 n, matNew y 1 n with
              | some a, some b => rowData .add (.mat a) (.mat b) 1 1
              | _, _ => none
            | _ => none
          match r with
          | none => panicked
          | some r => ok (digestL r)
        | _, _ => badOp
  | _ => badOp

def c04Step (args : List String) : String :=
  match args with
  | "long" :: rest => longStep rest
  | "bin" :: opS :: rest =>
    match c04Tok opS with
    | none => badOp
    | some t =>
      withArgs (do let sr ← pNat; let orf ← pNat; let a ← pOperand; let b ← pOperand; pure (sr, orf, a, b)) rest
        fun (sr, orf, a, b) =>
          match a, b with
          | some a, some b =>
            match findRow (traitOf t false) (tyOf a sr) (tyOf b orf) with
            | none => badOp
            | some row =>
              match evalRow I0.op row a b with
              | none => panicked
              | some r => ok (showVal r ++ echo a sr ++ echo b orf)
          | _, _ => panicked
  | "asg" :: opS :: rest =>
    match c04Tok opS with
    | none => badOp
    | some t =>
      withArgs (do let orf ← pNat; let a ← pOperand; let b ← pOperand; pure (orf, a, b)) rest
        fun (orf, a, b) =>
          match a, b with
          | some a, some b =>
            match findRow (traitOf t true) (tyOf a 0) (tyOf b orf) with
            | none => badOp
            | some row =>
              match evalRow I0.op row a b with
              | none => panicked
              | some r => ok (showVal r ++ echo b orf)
          | _, _ => panicked
  | "neg" :: rest =>
    withArgs pOperand rest fun a =>
      match a with
      | none => panicked
      | some a => match negVal I0.neg a with
        | none => badOp
        | some r => ok (showVal r)
  | "map" :: fS :: rest =>
    match c04UFnNames.lookup fS with
    | none => badOp
    | some f =>
      withArgs pOperand rest fun a =>
        match a with
        | none => panicked
        | some (.vec x) => match vecMap I0 f x with
          | none => badOp
          | some r => ok (showVal (.vec r) ++ " | " ++ showVal (.vec x))
        | some (.mat m) => match matMap I0 f m with
          | none => panicked
          | some r => ok (showVal (.mat r) ++ " | " ++ showVal (.mat m))
        | _ => badOp
  | "mapt" :: fS :: rest =>
    match c04UFnNames.lookup fS with
    | none => badOp
    | some f =>
      withArgs (do let a ← pOperand; let t ← pVec; pure (a, t)) rest fun (a, t) =>
        match a with
        | none => panicked
        | some (.vec x) => match vecMap (floatInterp (tableFn x t)) f x with
          | none => badOp
          | some r => ok (showVal (.vec r) ++ " | " ++ showVal (.vec x))
        | some (.mat m) => match matMap (floatInterp (tableFn m.data t)) f m with
          | none => panicked
          | some r => ok (showVal (.mat r) ++ " | " ++ showVal (.mat m))
        | _ => badOp
  | "powi" :: rest =>
    withArgs (do let n ← pInt; let a ← pOperand; pure (n, a)) rest fun (n, a) =>
      match a with
      | none => panicked
      | some (.vec x) => match vecMapI I0 .powi x n with
        | none => badOp
        | some r => ok (showVal (.vec r) ++ " | " ++ showVal (.vec x))
      | some (.mat m) => match matMapI I0 .powi m n with
        | none => panicked
        | some r => ok (showVal (.mat r) ++ " | " ++ showVal (.mat m))
      | _ => badOp
  | "powf" :: rest =>
    withArgs (do let p ← pFloat; let a ← pOperand; pure (p, a)) rest fun (p, a) =>
      match a with
      | none => panicked
      | some (.vec x) => match vecMapF I0 .powf x p with
        | none => badOp
        | some r => ok (showVal (.vec r) ++ " | " ++ showVal (.vec x))
      | some (.mat m) => match matMapF I0 .powf m p with
        | none => panicked
        | some r => ok (showVal (.mat r) ++ " | " ++ showVal (.mat m))
      | _ => badOp
  | "scal" :: fS :: rest =>
    match c04UFnNames.lookup fS with
    | none => badOp
    | some f => withArgs pVec rest fun x => ok (showVec (x.map (I0.ufn f)))
  | "scali" :: rest =>
    withArgs (do let n ← pInt; let x ← pVec; pure (n, x)) rest fun (n, x) => ok (showVec (x.map (powi · n)))
  | "scalf" :: rest =>
    withArgs (do let p ← pFloat; let x ← pVec; pure (p, x)) rest fun (p, x) => ok (showVec (x.map (Float.pow · p)))
  | "red" :: name :: _form :: rest =>
    withArgs pOperand rest fun a =>
      match a.bind listOf with
      | none => panicked
      | some x =>
        match name with
        | "sum" => ok (showFloat (sum8 x))
        | "prod" => ok (showFloat (prodL x))
        | "norm" => ok (showFloat (normL x))
        | "max" => ok (showFloat (maxL isNaNF nanF x))
        | "logsumexp" => ok (showFloat (logsumexpE isNaNF nanF (F64Consts.negInf (α := Float)) x))
        | "logmeanexp" => ok (showFloat (logmeanexpL isNaNF nanF x))
        | _ => badOp
  | "dot" :: rest =>
    withArgs (do let x ← pVec; let y ← pVec; pure (x, y)) rest fun (x, y) =>
      match dot? x y with
      | none => panicked
      | some d => ok (showFloat d)
  | "infnorm" :: "free" :: rest =>
    withArgs (do let n ← pNat; let x ← pVec; pure (n, x)) rest fun (n, x) =>
      match infNormL isNaNF nanF x n with
      | none => panicked
      | some d => ok (showFloat d)
  | "infnorm" :: "meth" :: rest =>
    withArgs pOperand rest fun a =>
      match a with
      | none => panicked
      | some (.mat m) => match matInfNorm I0 isNaNF nanF m with
        | none => panicked
        | some d => ok (showFloat d)
      | _ => badOp
  | _ => badOp

def main (args : List String) : IO UInt32 := mainWith () (fun _ t => ((), c04Step t)) args
