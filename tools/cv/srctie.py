"""
srctie — the "model regenerated from the source" half of the tie (DESIGN.md section 2).

For the straight-line arithmetic functions of the crate, `EXTRACT_SRC(repo)` runs the Rust→Lean translator
`tools/rs2lean.py` on the CURRENT source under `repo` and returns `{relative path under lean/: content}` for the
files `Compute/Generated/SrcCxx.lean` (namespace `Cv.Src.Cxx`).  `Compute/Props/SrcTieCxx.lean` proves, for every
translated function, `Cv.SrcTie.Cxx.<name>_eq : Cv.Src.Cxx.<name> = <hand model function>` by `rfl` / unfolding
(no float-invalid algebra).  An edit of a formula in the Rust source changes the regenerated definition and the
equivalence theorem stops checking: a proof alarm in addition to the correspondence alarm.

Wiring for a property module tools/cv/cxx.py (the lead adds these lines):

    from . import srctie
    srctie.wire(globals(), "Cxx")               # at the END of the module; equivalent to:
    #   PROOF_MODULES = PROOF_MODULES + ["Compute.Props.SrcTieCxx"]
    #   REQUIRED_THEOREMS = REQUIRED_THEOREMS + srctie.REQUIRED["Cxx"]
    #   _old_extract = globals().get("EXTRACT", lambda repo: {})
    #   EXTRACT = lambda repo: {**_old_extract(repo), **srctie.extract_for("Cxx", repo)}

Three tables: TABLE (`wire`, straight-line functions and — C12 — decision trees: Generated/SrcCxx.lean), TABLE_LOOPS
(`wire_loops`, loops / iterator chains: Generated/SrcCxxLoops.lean), TABLE_MUT (`wire_mut`, in-place mutation / nested loops /
early exit / loop and assignment fragments: Generated/SrcCxxMut.lean).  A property may have one of each.

CLI:  python3 tools/cv/srctie.py [--repo /repo] [--write] [--outdir DIR] [C17 C20 ...]
      (no --write: prints a diff summary against the committed copies; --outdir writes there instead of lean/)
"""
import os
import re
import sys

sys.path.insert(0, os.path.dirname(os.path.dirname(os.path.abspath(__file__))))
import rs2lean                      # noqa: E402
from rs2lean import Opts            # noqa: E402

VERIF = os.path.dirname(os.path.dirname(os.path.dirname(os.path.abspath(__file__))))

ALL_CLASSES = ("{α : Type} [Add α] [Sub α] [Mul α] [Div α] [Neg α] [Zero α] [One α] [NatCast α] [IntCast α]\n"
               "  [LT α] [DecidableLT α] [LE α] [DecidableLE α] [BEq α] [Cv.Transc α]")


def O(name, **kw):
    return dict(name=name, **kw)


# --------------------------------------------------------------------------------------------------- C17
C17 = dict(
    imports=["Compute.Model.Scalar"],
    variables=ALL_CLASSES,
    about="src/functions/statistical.rs: logistic, logit, boxcox, boxcox_shifted",
    functions=[
        ("src/functions/statistical.rs", "logistic", O("logistic")),
        ("src/functions/statistical.rs", "logit", O("logit")),
        ("src/functions/statistical.rs", "boxcox", O("boxcox")),
        ("src/functions/statistical.rs", "boxcox_shifted", O("boxcoxShifted")),
    ],
)

# --------------------------------------------------------------------------------------------------- C20
_RBF = ("k", "Cv.Gp.RBF α", {"var": "var", "length_scale": "ls"})
_RQ = ("k", "Cv.Gp.RQ α", {"var": "var", "alpha": "alpha", "length_scale": "ls"})
C20 = dict(
    imports=["Compute.Model.Scalar", "Compute.Model.GpKernels"],
    variables=ALL_CLASSES,
    about="src/predict/gps/kernels.rs: the scalar `forward` bodies of the macros impl_kernel_f64_for_rbf / _rq "
          "(instantiated for f64 and &f64)",
    functions=[
        ("src/predict/gps/kernels.rs", "impl_kernel_f64_for_rbf!::forward", O("rbfFwd", self_struct=_RBF)),
        ("src/predict/gps/kernels.rs", "impl_kernel_f64_for_rq!::forward", O("rqFwd", self_struct=_RQ)),
    ],
)


# --------------------------------------------------------------------------------------------------- C02
_D = "src/distributions/"
_F = [("F", "Cv.Dist.Fns α")]
_C02 = dict(
    consts={"PI": "F.pi", "std::f64::consts::PI": "F.pi", "EULER_MASCHERONI": "F.euler"},
    fns={"ln_gamma": "F.lnGamma", "gamma": "F.gamma", "erf": "F.erf", "xlogy": "xlogy"},
    methods={"ln_1p": "F.ln1p {0}"},
)
_MOM = (".fin", ".inf", ".nan", "Cv.Dist.Moment α")


def _d(file, path, name, F=False, **kw):
    o = dict(_C02)
    o.update(kw)
    if F:
        o["extra_binders"] = _F
    return (_D + file, path, O(name, **o))


C02 = dict(
    imports=["Compute.Model.Scalar", "Compute.Model.DistPdf"],
    variables=ALL_CLASSES,
    about="src/distributions/*.rs: pdf / pmf, ln_pdf, cdf, mean, var of the 13 univariate distributions and `xlogy`.\n"
          "Special functions and constants are the fields of `Cv.Dist.Fns` (as in Model/DistPdf.lean): `PI` = `F.pi`,\n"
          "`gamma` = `F.gamma`, `ln_gamma` = `F.lnGamma`, `erf` = `F.erf`, `.ln_1p()` = `F.ln1p`, `EULER_MASCHERONI` = `F.euler`;\n"
          "`i64` / `usize` / `u64` values are `Int` / `Nat` (integer arithmetic unbounded: overflow is not modelled;\n"
          "`k as u64` of an `i64` is the wrapping cast `(k % 2^64).toNat`).",
    functions=[
        _d("mod.rs", "xlogy", "xlogy"),
        _d("normal.rs", "Normal::pdf", "Normal_pdf", F=True),
        _d("normal.rs", "Normal::ln_pdf", "Normal_lnPdf", F=True),
        _d("normal.rs", "Normal::cdf", "Normal_cdf", F=True),
        _d("normal.rs", "Normal::mean", "Normal_mean"),
        _d("normal.rs", "Normal::var", "Normal_var"),
        _d("gamma.rs", "Gamma::pdf", "Gamma_pdf", F=True),
        _d("gamma.rs", "Gamma::mean", "Gamma_mean"),
        _d("gamma.rs", "Gamma::var", "Gamma_var"),
        _d("beta.rs", "Beta::pdf", "Beta_pdf", F=True),
        _d("beta.rs", "Beta::mean", "Beta_mean"),
        _d("beta.rs", "Beta::var", "Beta_var"),
        _d("chi_squared.rs", "ChiSquared::mean", "ChiSquared_mean"),
        _d("chi_squared.rs", "ChiSquared::var", "ChiSquared_var", self_calls={"mean": "ChiSquared_mean"}),
        _d("chi_squared.rs", "ChiSquared::pdf", "ChiSquared_pdf", F=True),
        _d("t.rs", "T::pdf", "T_pdf", F=True),
        _d("t.rs", "T::mean", "T_mean", moment=_MOM),
        _d("t.rs", "T::var", "T_var", moment=_MOM),
        _d("pareto.rs", "Pareto::pdf", "Pareto_pdf"),
        _d("pareto.rs", "Pareto::mean", "Pareto_mean", moment=_MOM),
        _d("pareto.rs", "Pareto::var", "Pareto_var", moment=_MOM),
        _d("gumbel.rs", "Gumbel::pdf", "Gumbel_pdf"),
        _d("gumbel.rs", "Gumbel::mean", "Gumbel_mean", F=True),
        _d("gumbel.rs", "Gumbel::var", "Gumbel_var", F=True),
        _d("exponential.rs", "Exponential::pdf", "Exponential_pdf"),
        _d("exponential.rs", "Exponential::mean", "Exponential_mean"),
        _d("exponential.rs", "Exponential::var", "Exponential_var"),
        _d("uniform.rs", "Uniform::pdf", "Uniform_pdf"),
        _d("uniform.rs", "Uniform::mean", "Uniform_mean"),
        _d("uniform.rs", "Uniform::var", "Uniform_var"),
        _d("poisson.rs", "Poisson::pmf", "Poisson_pmf", F=True),
        _d("poisson.rs", "Poisson::mean", "Poisson_mean"),
        _d("poisson.rs", "Poisson::var", "Poisson_var"),
        _d("binomial.rs", "Binomial::pmf", "Binomial_pmf", F=True, int_arith=True, wrapping_casts=True),
        _d("binomial.rs", "Binomial::mean", "Binomial_mean"),
        _d("binomial.rs", "Binomial::var", "Binomial_var"),
        _d("bernoulli.rs", "Bernoulli::pmf", "Bernoulli_pmf"),
        _d("bernoulli.rs", "Bernoulli::mean", "Bernoulli_mean"),
        _d("bernoulli.rs", "Bernoulli::var", "Bernoulli_var"),
        _d("discreteuniform.rs", "DiscreteUniform::pmf", "DiscreteUniform_pmf", int_arith=True),
        _d("discreteuniform.rs", "DiscreteUniform::mean", "DiscreteUniform_mean", int_arith=True),
        _d("discreteuniform.rs", "DiscreteUniform::var", "DiscreteUniform_var", int_arith=True),
    ],
)

# --------------------------------------------------------------------------------------------------- C09
_G = "src/functions/gamma.rs"
_S = "src/functions/statistical.rs"
_lit = lambda n: "(Cv.ofLit Cv.C09T.%s)" % n
_C09 = dict(
    consts={"PI": _lit("pi"), "ERF_P": _lit("erfP"), "ERF_A1": _lit("erfA1"), "ERF_A2": _lit("erfA2"),
            "ERF_A3": _lit("erfA3"), "ERF_A4": _lit("erfA4"), "ERF_A5": _lit("erfA5")},
    named_lits={"4.7421875": _lit("gBase")},        # `const G: f64 = 4.7421875 + 1.;` is inlined through this literal
)
_REC = [("g", "α → α")]
C09 = dict(
    imports=["Compute.Model.Scalar", "Compute.Model.Special"],
    variables=ALL_CLASSES + " [Cv.OfLit α] [Cv.SignBit α]",
    about="src/functions/gamma.rs (`beta`, `gamma`, `ln_gamma`) and src/functions/statistical.rs (`erf`).\n"
          "Inexact float literals are the entries of Generated/C09Tables.lean (bits regenerated by tools/cv/c09.py).\n"
          "`gamma`, `ln_gamma`, `erf` are recursive: the recursive call is the parameter `g`.  The Lanczos `for` loop of\n"
          "`gamma` / `ln_gamma` is outside the subset: its accumulator `x` is a parameter (the code after the loop).",
    functions=[
        (_G, "beta", O("beta", fns={"gamma": "Cv.Special.gammaFn"}, **_C09)),
        (_G, "gamma", O("gammaStep", fns={"gamma": "g"}, extra_binders=_REC, loops_as_params=["x"], **_C09)),
        (_G, "ln_gamma", O("lnGammaStep", fns={"ln_gamma": "g"}, extra_binders=_REC, loops_as_params=["x"], **_C09)),
        # `x.is_sign_positive()` (repair F56) is spelled `Cv.SignBit.isSignPositive x` (class in Model/Special.lean)
        (_S, "erf", O("erfStep", fns={"erf": "g"}, extra_binders=_REC, mut=True,
                      bool_methods={"is_sign_positive": "Cv.SignBit.isSignPositive {0}"}, **_C09)),
    ],
)

# --------------------------------------------------------------------------------------------------- C06
_FAM = "src/predict/glms/families.rs"
_YM = {("y", "i"): "yi", ("mu", "i"): "mi"}
_YML = {("y", "i"): "yi", ("mu", "i"): "mi", ("ylogy", "i"): "l"}


def _cl(arm, index, name, **kw):
    return (_FAM, "ExponentialFamily::deviance", O(name, closure=dict(arm=arm, index=index, **kw)))


C06 = dict(
    imports=["Compute.Model.Scalar", "Compute.Model.Vops"],
    variables=ALL_CLASSES,
    about="src/predict/glms/families.rs: the per-observation closures of `ExponentialFamily::deviance`, one per match arm\n"
          "(the iterator pipelines around them — `vsub`, `zip`, `sum`, the final `2. *` / `* -2.` — are outside the subset and\n"
          "stay covered by the bit-exact tie).  `y[i]`, `mu[i]`, `ylogy[i]` inside a closure over the index are the scalars `yi mi l`.\n"
          "And every match arm of `variance`, `inv_link`, `d_inv_link`: `Vector` expressions, whose operator overloads are\n"
          "spelled with the shared element-wise kernels of Model/Vops.lean (`f64 ∘ Vector` = `sv`, `Vector ∘ f64` = `vs`,\n"
          "`Vector ∘ Vector` / `vmul` = `vbinGo`, `-v` = `map (- ·)`, `.exp()` = `vun exp`, `Vector::from` = the slice itself,\n"
          "`Vector::ones(n)` = `replicate n 1`).",
    functions=[
        _cl("Gaussian", 0, "devGaussianTerm"),
        _cl("Bernoulli", 0, "devBernoulliTerm", index_vars=_YM),
        _cl("QuasiPoisson", 0, "ylogyQuasiPoisson"),
        _cl("QuasiPoisson", 1, "devQuasiPoissonTerm", index_vars=_YML),
        _cl("Poisson", 0, "ylogyPoisson"),
        _cl("Poisson", 1, "devPoissonTerm", index_vars=_YML),
        _cl("Gamma", 0, "devGammaTerm"),
        _cl("Exponential", 0, "devExponentialTerm"),
    ] + [
        (_FAM, "ExponentialFamily::" + fn, O(lean + fam, vectors=True, closure=dict(kind="arm", arm=fam)))
        for fn, lean in (("variance", "variance"), ("inv_link", "invLink"), ("d_inv_link", "dInvLink"))
        for fam in ("Gaussian", "Bernoulli", "QuasiPoisson", "Poisson", "Gamma", "Exponential")
    ],
)

# --------------------------------------------------------------------------------------------------- C07
_INT = "src/integrate/functions.rs"
_FB = [("f", "α → α")]


def _fr(file, fn, leanname, extra=None, fns=None, **frag):
    o = O(leanname, closure=frag)
    if extra:
        o["extra_binders"] = extra
    if fns:
        o["fns"] = fns
    return (file, fn, o)


C07 = dict(
    imports=["Compute.Model.Scalar"],
    variables=ALL_CLASSES,
    about="src/integrate/functions.rs: the straight-line fragments of `trapz` and `quad5` (step, change of variables, the\n"
          "per-node closures); the iterator pipelines (`(1..n).map(..).sum()`), `romberg` and `trapezoid` are loops: outside.",
    functions=[
        _fr(_INT, "trapz", "trapzDx", kind="let", name="dx", free={"a": "a", "b": "b", "n": ("n", "nat")}),
        _fr(_INT, "trapz", "trapzNode", extra=_FB, fns={"f": "f"}, kind="closure", index=0,
            free={"a": "a", "dx": "dx"}, param_types={"k": "nat"}),
        _fr(_INT, "quad5", "quad5Xm", kind="let", name="xm", free={"a": "a", "b": "b"}),
        _fr(_INT, "quad5", "quad5Xr", kind="let", name="xr", free={"a": "a", "b": "b"}),
        _fr(_INT, "quad5", "quad5Term", extra=_FB, fns={"f": "f"}, kind="closure", index=0, free={"xm": "xm", "xr": "xr"},
            index_vars={("GAUSS_QUAD_NODES", "i"): "t", ("GAUSS_QUAD_WEIGHTS", "i"): "w"}),
    ],
)

# --------------------------------------------------------------------------------------------------- C16
_IP = "src/functions/interpolate.rs"
_U = "interp1d_linear_unchecked"
C16 = dict(
    imports=["Compute.Model.Scalar"],
    variables=ALL_CLASSES,
    about="src/functions/interpolate.rs: the per-target formulas of `interp1d_linear_unchecked` (both extrapolation slopes\n"
          "and values, the interpolation ratio and value).  `x[0]`, `y[n - 1]`, `tgt[i]`, `x[idx - 1]` … are scalars; the scan for\n"
          "`idx`, the bounds test and the `match` on the mode are loops / control flow outside the subset.",
    functions=[
        _fr(_IP, _U, "slopeLeft", kind="let", name="slope", index=0,
            index_vars={("y", "1"): "y1", ("y", "0"): "y0", ("x", "1"): "x1", ("x", "0"): "x0"}),
        _fr(_IP, _U, "extrapLeft", kind="call_arg", callee="push", index=2, free={"slope": "slope"},
            index_vars={("x", "0"): "x0", ("tgt", "i"): "t", ("y", "0"): "y0"}),
        _fr(_IP, _U, "slopeRight", kind="let", name="slope", index=1,
            index_vars={("y", "n - 1"): "yn1", ("y", "n - 2"): "yn2", ("x", "n - 1"): "xn1", ("x", "n - 2"): "xn2"}),
        _fr(_IP, _U, "extrapRight", kind="call_arg", callee="push", index=3, free={"slope": "slope"},
            index_vars={("tgt", "i"): "t", ("x", "n - 1"): "xn1", ("y", "n - 1"): "yn1"}),
        _fr(_IP, _U, "ratio", kind="let", name="ratio", index=0,
            index_vars={("tgt", "i"): "t", ("x", "idx - 1"): "xlo", ("x", "idx"): "xhi"}),
        _fr(_IP, _U, "lerp", kind="call_arg", callee="push", index=4, free={"ratio": "ratio"},
            index_vars={("y", "idx"): "yhi", ("y", "idx - 1"): "ylo"}),
    ],
)

# --------------------------------------------------------------------------------------------------- C12
# (third pass of the translator, option `mut`: decision trees returning tuples of enum values, with `assert!`s)
_BC = "Nat → Nat → Nat → Nat → Option (Cv.Bc × Cv.Bc)"
C12 = dict(
    imports=["Compute.Model.Broadcast"],
    variables="{α : Type}",
    about="src/linalg/array/broadcast.rs: the classifier `calc_broadcast_shape` (decision tree over the two shapes, two `assert!`s,\n"
          "the operand swap).  A `&Matrix` parameter `m` is the pair of binders `m_nrows m_ncols`; `m.shape()` is the array\n"
          "`[m.nrows, m.ncols]` (`==` on arrays is the conjunction of the component equalities, `.contains(&1)` the disjunction);\n"
          "`Broadcast::X` is `Cv.Bc.x`; the result array `[b1, b2]` is a pair; `none` = a failed `assert!`.\n"
          "The function is recursive (`calc_broadcast_shape(m2, m1)` on the swapped operands): the recursive call is the\n"
          "parameter `rec` (as for `gamma` / `erf` in SrcC09).",
    functions=[
        ("src/linalg/array/broadcast.rs", "calc_broadcast_shape", O(
            "calcBroadcastShape", mut=True, int_arith=True, adts={"Broadcast": "Cv.Bc"},
            adt_ctors={"Broadcast::Hstack": "Cv.Bc.hstack", "Broadcast::Vstack": "Cv.Bc.vstack",
                       "Broadcast::IsScalar": "Cv.Bc.isScalar", "Broadcast::None": "Cv.Bc.none",
                       "Broadcast::Invalid": "Cv.Bc.invalid"},
            struct_types={"Matrix": [("nrows", "nat"), ("ncols", "nat")]},
            struct_methods={"Matrix": {"shape": ["nrows", "ncols"]}},
            fns={"calc_broadcast_shape": "rec"}, opt_fns=("calc_broadcast_shape",), extra_binders=[("rec", _BC)])),
    ],
)

# --------------------------------------------------------------------------------------------------- C03 / C18 (fourth pass)
_DSN = ("Uniform", "Normal", "Gamma", "Beta", "Exponential", "Gumbel", "Pareto", "Poisson", "T", "Bernoulli")
_ds = lambda n: ("adt", n, "Cv.DS.%s α" % n)
_DST = {"Uniform": [("lower", "f64"), ("upper", "f64")], "Normal": [("mu", "f64"), ("sigma", "f64")],
        "Gamma": [("alpha", "f64"), ("beta", "f64"), ("normal_gen", _ds("Normal")), ("uniform_gen", _ds("Uniform"))],
        "Beta": [("alpha", "f64"), ("beta", "f64"), ("alpha_gen", _ds("Gamma")), ("beta_gen", _ds("Gamma"))],
        "Exponential": [("lambda", "f64"), ("rng", _ds("Uniform"))],
        "Gumbel": [("mu", "f64"), ("beta", "f64"), ("uniform_gen", _ds("Uniform"))],
        "Pareto": [("alpha", "f64"), ("minval", "f64")], "Poisson": [("lambda", "f64")], "T": [("dof", "f64")],
        "Bernoulli": [("p", "f64")]}
_C18O = dict(mut=True, int_arith=True, adts={n: "Cv.DS.%s α" % n for n in _DSN}, struct_types=_DST,
             struct_mk={n: "Cv.DS.%s.mk" % n for n in _DSN}, fns={n + "::new": "Cv.DS.%s.new" % n for n in _DSN},
             fn_ret={n + "::new": _ds(n) for n in _DSN}, opt_fns=tuple(n + "::new" for n in _DSN))
_DFILE = {"Uniform": "uniform.rs", "Normal": "normal.rs", "Gamma": "gamma.rs", "Beta": "beta.rs",
          "Exponential": "exponential.rs", "Gumbel": "gumbel.rs", "Pareto": "pareto.rs", "Poisson": "poisson.rs", "T": "t.rs",
          "Bernoulli": "bernoulli.rs"}
C18 = dict(
    imports=["Compute.Model.Scalar", "Compute.Model.DistState"],
    variables=ALL_CLASSES + " [Inhabited α]",
    about="src/distributions/*.rs: the constructors `new` of ten univariate distributions (parameter validation `if .. { panic!() }` /\n"
          "`assert!`, then the struct literal).  A struct literal `Name { a, b: e }` is the record constructor `Cv.DS.Name.mk` applied to\n"
          "the fields in DECLARATION order (the field expressions are evaluated in the order of the literal); the nested constructor\n"
          "calls `Uniform::new(0., 1.)`, `Normal::new(0., 1.)`, `Gamma::new(alpha, 1.)` are the model constructors `Cv.DS.*.new` (`none` = panic).",
    functions=[(_D + _DFILE[n], n + "::new", O(n + "_new", **_C18O)) for n in _DSN],
)

_C03O = dict(mut=True, fns={"alea::f64": "u"}, field_calls={"rng.sample": ("u", "f64"), "uniform_gen.sample": ("u", "f64")},
             extra_binders=[("u", "α")], bool_methods={"is_finite": "Cv.FiniteTest.isFinite {0}"},
             type_alias={"Self::Output": "f64"})
C03 = dict(
    imports=["Compute.Model.Scalar", "Compute.Model.Samplers"],
    variables=ALL_CLASSES + " [Inhabited α] [Cv.FiniteTest α]",
    about="src/distributions/{exponential,gumbel,pareto,uniform}.rs: the inverse-CDF `sample()` formulas as functions of the RNG draw\n"
          "(for the three samplers that redraw while the draw is 0 — F53 — the value AFTER the `while` loop, as a function of the final draw):\n"
          "`alea::f64()` and the draw of the cached unit-uniform sub-sampler (`self.rng.sample()`, `self.uniform_gen.sample()`) are the\n"
          "PARAMETER `u` (Model/Samplers.lean threads the generator state and takes `u` from it); `x.is_finite()` is\n"
          "`Cv.FiniteTest.isFinite x`.",
    functions=[
        # (F53: the draw is redrawn while it is 0; the formula is the value after that `while` loop, as a function of the final draw `u`;
        #  the loop itself is tied in SrcC03Mut, `*_sampleLoop`)
        (_D + "exponential.rs", "Exponential::sample", O("Exponential_sample", mut=True, closure=dict(
            kind="after_while", index=0, free={"u": "u", "self.lambda": "lambda"}))),
        (_D + "gumbel.rs", "Gumbel::sample", O("Gumbel_sample", mut=True, closure=dict(
            kind="after_while", index=0, free={"u": "u", "self.mu": "mu", "self.beta": "beta"}))),
        (_D + "pareto.rs", "Pareto::sample", O("Pareto_sample", mut=True, closure=dict(
            kind="after_while", index=0, free={"u": "u", "self.alpha": "alpha", "self.minval": "minval"}))),
        (_D + "uniform.rs", "Uniform::sample", O("Uniform_sample", **_C03O)),
    ],
)

TABLE = {"C02": C02, "C03": C03, "C18": C18, "C06": C06, "C07": C07, "C09": C09, "C12": C12, "C16": C16, "C17": C17, "C20": C20}

# =================================================================================================== LOOPS
# Second pass of the translator: the simple loop / iterator-chain subset (`Opts(loops=True)`, see tools/rs2lean.py,
# "Loops and iterator chains").  Whole functions are translated (no fragments); the generated files are
# Compute/Generated/SrcCxxLoops.lean (namespace Cv.Src.CxxLoops), the equivalence theorems Compute/Props/SrcTieCxxLoops.lean.
# `int_arith=True`: usize arithmetic is unbounded Nat (overflow not modelled; `a - b` IS checked: guard `b ≤ a`);
# `x[i]` is `x[i]!` (the out-of-bounds panic is not modelled; the theorems that need it carry / derive the bounds).
LOOP_CLASSES = ALL_CLASSES + " [Inhabited α]"
_L = dict(loops=True, int_arith=True)
_STAT = "src/statistics/"
_C08F = {"welford_update": "welfordUpdate", "welford_statistics": "welfordStatistics", "sum": "Cv.sum8", "mean": "mean",
         "var": "var", "sample_var": "sampleVar", "f64::min": "Cv.fminG", "f64::max": "Cv.fmaxG"}


def _l(file, path, name, fns=None, **kw):
    o = dict(_L)
    o.update(kw)
    if fns is not None:
        o["fns"] = dict(fns)
    return (file, path, O(name, **o))


C08L = dict(
    imports=["Compute.Model.Scalar", "Compute.Model.Kernels", "Compute.Model.Stats"],
    variables=LOOP_CLASSES + " [Cv.HasNaN α]",
    about="src/statistics/{moments,covariance,order,hist}.rs: whole functions (loops, folds, iterator chains).\n"
          "`sum` is the shared unrolled kernel `Cv.sum8`, `Iterator::sum::<f64>()` is `Cv.iterSum` (fold from -0.0),\n"
          "`f64::min` / `f64::max` are `Cv.fminG` / `Cv.fmaxG`, `f64::NAN` is `HasNaN.nan`, `f64::MAX` / `f64::MIN` are the\n"
          "parameters `big` / `small` (as in Model/Stats.lean); calls of functions of this table go to the generated definitions.",
    functions=[
        _l(_STAT + "moments.rs", "welford_update", "welfordUpdate", _C08F),
        _l(_STAT + "moments.rs", "welford_statistics", "welfordStatistics", _C08F),
        _l(_STAT + "moments.rs", "mean", "mean", _C08F),
        _l(_STAT + "moments.rs", "welford_mean", "welfordMean", _C08F),
        _l(_STAT + "moments.rs", "var", "var", _C08F),
        _l(_STAT + "moments.rs", "sample_var", "sampleVar", _C08F),
        _l(_STAT + "moments.rs", "std", "std", _C08F),
        _l(_STAT + "moments.rs", "sample_std", "sampleStd", _C08F, opt_fns=("sample_var",)),
        _l(_STAT + "covariance.rs", "covariance", "covariance", _C08F),
        _l(_STAT + "covariance.rs", "sample_covariance", "sampleCovariance", _C08F),
        _l(_STAT + "covariance.rs", "sample_covariance_onepass", "sampleCovarianceOnepass", _C08F),
        _l(_STAT + "covariance.rs", "sample_covariance_online", "sampleCovarianceOnline", _C08F),
        _l(_STAT + "order.rs", "min", "minFold", _C08F, consts={"f64::NAN": "Cv.HasNaN.nan"}),
        _l(_STAT + "order.rs", "max", "maxFold", _C08F, consts={"f64::NAN": "Cv.HasNaN.nan"}),
        _l(_STAT + "order.rs", "argmin", "argmin", _C08F, consts={"f64::MAX": "big"}, extra_binders=[("big", "α")]),
        _l(_STAT + "order.rs", "argmax", "argmax", _C08F, consts={"f64::MIN": "small"}, extra_binders=[("small", "α")]),
        _l(_STAT + "hist.rs", "hist_bin_centers", "histBinCenters", _C08F),
    ],
)

_TSF = {"mean": "Cv.TS.mean"}
C13L = dict(
    imports=["Compute.Model.Scalar", "Compute.Model.Timeseries"],
    variables=LOOP_CLASSES,
    about="src/timeseries/functions.rs: `acovf`, `acf`, `difference` (whole functions).  `mean` is `Cv.TS.mean` (the unrolled\n"
          "`sum` over the length), `Iterator::sum::<f64>()` is `Cv.TS.iterSum` (fold from -0.0), `k.abs() as usize` is `Int.natAbs k`\n"
          "(`i32` overflow of `abs` at `i32::MIN` is not modelled), `.powi(2)` is `Cv.powi _ 2`.",
    functions=[
        _l("src/timeseries/functions.rs", "acovf", "acovf", _TSF, iter_sum="Cv.TS.iterSum"),
        _l("src/timeseries/functions.rs", "acf", "acf", _TSF, iter_sum="Cv.TS.iterSum"),
        _l("src/timeseries/functions.rs", "difference", "difference", _TSF, iter_sum="Cv.TS.iterSum"),
    ],
)

C07L = dict(
    imports=["Compute.Model.Scalar", "Compute.Model.Stats"],
    variables=LOOP_CLASSES,
    about="src/integrate/functions.rs: `trapz` as a whole function (the iterator pipeline `(1..n).map(|k| ..).sum::<f64>()`\n"
          "included; Generated/SrcC07.lean has its straight-line fragments).  The integrand `f: F` is the binder `f : α → α`.\n"
          "src/integrate/samples.rs: the two per-index closures of `trapezoid` as scalar fragments (`xarr[i]`, `y[i - 1]`, `diff_x[i - 1]`\n"
          "are scalars); the function as a whole (`Option` arguments, `if let`, `Vector::ones(..) * dx`) is outside the subset.",
    functions=[
        _l("src/integrate/functions.rs", "trapz", "trapz", {}, fn_params={"f": "α → α"}),
        _fr("src/integrate/samples.rs", "trapezoid", "trapezoidDiff", kind="closure", index=0,
            index_vars={("xarr", "i"): "xi", ("xarr", "i - 1"): "xp"}),
        _fr("src/integrate/samples.rs", "trapezoid", "trapezoidTerm", kind="closure", index=1,
            index_vars={("y", "i"): "yi", ("y", "i - 1"): "yp", ("diff_x", "i - 1"): "d"}),
    ],
)

C14L = dict(
    imports=["Compute.Model.Scalar"],
    variables=LOOP_CLASSES,
    about="src/predict/polynomial.rs: `PolynomialRegressor::predict` (Horner fold over the reversed coefficients, per input).",
    functions=[
        _l("src/predict/polynomial.rs", "PolynomialRegressor::predict", "predict", {}),
    ],
)

_MAXL = [("isNaN", "α → Bool"), ("nan", "α")]
_C04F = {"max": "Cv.VecOps.maxL isNaN nan", "dot": "Cv.dot8"}
C04L = dict(
    imports=["Compute.Model.Scalar", "Compute.Model.Kernels", "Compute.Model.Stats", "Compute.Model.VecOps"],
    variables=LOOP_CLASSES,
    about="src/linalg/utils.rs: the reductions `logsumexp`, `logmeanexp`, `prod`, `norm`.  `max` (statistics::max, a NaN-seeded\n"
          "fold of `f64::max`) is `Cv.VecOps.maxL isNaN nan` with the NaN test and the NaN seed as parameters (as in\n"
          "Model/VecOps.lean), `dot` is the shared unrolled kernel `Cv.dot8`, `Iterator::sum::<f64>()` is `Cv.iterSum`\n"
          "(fold from -0.0), `Iterator::product()` is the left fold of `*` from 1.\n"
          "`logsumexp` (F55) starts with `if x.is_empty() { return f64::NEG_INFINITY; }`: `x.is_empty()` is `x.isEmpty`, `f64::NEG_INFINITY` is the\n"
          "parameter `ninf` (as `nan`).\n"
          "`is_matrix` returns `Result<usize, String>`: `Ok(c)` is `some c`, `Err(..)` is `none` (its callers `.unwrap()`); the\n"
          "`usize` division `m.len() / nrows` panics for `nrows = 0` (guard `0 < nrows`).  `inf_norm`: the nested `for` loops with\n"
          "`abs_row_sums.push(s)` are nested folds (`acc ++ [s]`).",
    functions=[
        _l("src/linalg/utils.rs", "logsumexp", "logsumexp", _C04F, extra_binders=_MAXL + [("ninf", "α")],
           consts={"f64::NEG_INFINITY": "ninf"}),
        _l("src/linalg/utils.rs", "logmeanexp", "logmeanexp", _C04F, extra_binders=_MAXL),
        _l("src/linalg/utils.rs", "prod", "prod", _C04F),
        _l("src/linalg/utils.rs", "norm", "norm", _C04F),
        _l("src/linalg/utils.rs", "is_matrix", "isMatrix", _C04F),
        _l("src/linalg/utils.rs", "inf_norm", "infNorm", dict(_C04F, is_matrix="isMatrix"), opt_fns=("is_matrix",),
           extra_binders=_MAXL),
    ],
)

TABLE_LOOPS = {"C04": C04L, "C07": C07L, "C08": C08L, "C13": C13L, "C14": C14L}

# theorems of Compute/Props/SrcTieCxxLoops.lean the check must find
REQUIRED_LOOPS = {
    "C04": ["Cv.SrcTie.C04Loops." + n for n in (
        "logsumexp_src", "logmeanexp_src", "logsumexp_eq_of", "logmeanexp_eq_of", "prod_eq", "norm_eq", "isMatrix_eq",
        "infNorm_eq")],
    "C07": ["Cv.SrcTie.C07Loops.trapz_eq", "Cv.SrcTie.C07Loops.pairDiffs_eq", "Cv.SrcTie.C07Loops.trapezoid_terms_eq",
            "Cv.SrcTie.C07Loops.trapezoid_some_eq"],
    "C08": ["Cv.SrcTie.C08Loops." + n for n in (
        "welfordUpdate_eq", "welfordStatistics_eq", "mean_eq", "welfordMean_eq", "var_eq", "sampleVar_eq", "std_eq",
        "sampleStd_eq", "covariance_eq", "sampleCovariance_eq", "sampleCovarianceOnepass_eq", "sampleCovarianceOnline_eq",
        "minFold_eq", "maxFold_eq", "argmin_eq", "argmax_eq", "histBinCenters_eq")],
    "C13": ["Cv.SrcTie.C13Loops." + n for n in ("acovf_eq", "acf_eq", "difference_eq")],
    "C14": ["Cv.SrcTie.C14Loops.predict_eq"],
}

# =================================================================================================== MUT
# Third pass of the translator: in-place mutation / nested loops / decision trees (`Opts(mut=True)`, see tools/rs2lean.py,
# "In-place mutation, nested loops, decision trees").  Whole functions; the generated files are
# Compute/Generated/SrcCxxMut.lean (namespace Cv.Src.CxxMut), the equivalence theorems Compute/Props/SrcTieCxxMut.lean,
# the general "loop with `List.set` = recursion / append" lemmas Compute/Lemmas/SrcMut.lean.
# Reads `v[i]` of f64 vectors are `Cv.LA.rd v i` (= `v.getD i 0`), writes `v[i] = e` are `List.set v i e`, `v.swap(a, b)` is
# `Cv.LA.swapIdx v a b` — the spellings of Model/Decomp.lean; out-of-range indices (a Rust panic) are NOT modelled.
MUT_CLASSES = LOOP_CLASSES
_M = dict(mut=True, int_arith=True, index_read="Cv.LA.rd {0} {1}")
_DEC = "src/linalg/decomposition/"
_C11F = {"is_square": "Cv.LA.isSquare {0}.length", "dot": "Cv.dot8", "cmp::min": "min", "is_symmetric": "Cv.LA.isSymmetric",
         "transpose": "Cv.LA.transpose", "try_cholesky": "tryCholesky", "forward_substitution": "forwardSubstitution junk",
         "backward_substitution": "backwardSubstitution junk"}
_C11R = {"is_square": "nat", "cmp::min": "nat", "is_symmetric": "bool", "transpose": "vec", "try_cholesky": ("opt", "vec"),
         "forward_substitution": "vec", "backward_substitution": "vec"}
_C11O = ("is_square", "is_symmetric", "transpose", "try_cholesky", "forward_substitution", "backward_substitution")
_JUNK = [("junk", "Nat → α")]
_UNINIT = "(List.map junk (List.range {0}))"


def _m(file, path, name, **kw):
    o = dict(_M)
    o.update(kw)
    return (file, path, O(name, **o))


def _c11(file, path, name, **kw):
    return _m(_DEC + file, path, name, fns=dict(_C11F), fn_ret=dict(_C11R), opt_fns=_C11O,
              bool_methods={"is_nan": "Cv.LA.isNan {0} = true"}, **kw)


C11M = dict(
    imports=["Compute.Model.Scalar", "Compute.Model.Kernels", "Compute.Model.Decomp"],
    variables=MUT_CLASSES,
    about="src/linalg/decomposition/{substitution,lu,cholesky}.rs: whole functions (in-place updates of `let mut` vectors in\n"
          "nested `for` loops, `if` statements that only mutate, the early `return None` of `try_cholesky`).\n"
          "`v[i]` is `Cv.LA.rd v i`, `v[i] = e` is `List.set v i e`, `v.swap(a, b)` is `Cv.LA.swapIdx v a b`, a slice `&v[lo..hi]` is\n"
          "`take (hi - lo) (drop lo v)` (index / slice panics are not modelled); `is_square(m).unwrap()` is `Cv.LA.isSquare m.length`\n"
          "(`none` = panic), `is_symmetric` is `Cv.LA.isSymmetric`, `transpose` is `Cv.LA.transpose`, `dot` is the shared unrolled\n"
          "kernel `Cv.dot8` (its length assert is not modelled), `cmp::min` is `min`, `x.is_nan()` is `Cv.LA.isNan x`.\n"
          "`Vec::with_capacity(n)` + `set_len(n)` (uninitialised memory) is a vector of `n` ARBITRARY values `junk 0 .. junk (n-1)`.\n"
          "`Vec<i32>` pivots are `List Int` (`x as i32` is the cast `Nat → Int`, `p as usize` is `Int.toNat`; wrap-around not modelled).\n"
          "A loop with an early `return None` is a `List.foldlM` in `Option`; the function's own `Option` is the inner one, the outer\n"
          "`Option` is `none` = panic.  Calls of functions of this table go to the generated definitions.",
    functions=[
        _c11("substitution.rs", "forward_substitution", "forwardSubstitution", extra_binders=_JUNK, uninit=_UNINIT),
        _c11("substitution.rs", "backward_substitution", "backwardSubstitution", extra_binders=_JUNK, uninit=_UNINIT),
        _c11("lu.rs", "lu", "lu"),
        _c11("lu.rs", "lu_solve", "luSolve"),
        _c11("cholesky.rs", "try_cholesky", "tryCholesky"),
        _c11("cholesky.rs", "cholesky", "cholesky"),
        _c11("cholesky.rs", "cholesky_solve", "choleskySolve", extra_binders=_JUNK),
    ],
)

_UT = "src/linalg/utils.rs"
_ISM = dict(fns={"is_matrix": "Cv.Shape.isMatrixU {0}.length {1}"}, fn_ret={"is_matrix": "nat"}, opt_fns=("is_matrix",))
_MAT = ("adt", "Matrix", "Cv.Mat α")
_MATS = dict(adts={"Matrix": "Cv.Mat α"}, struct_types={"Matrix": [("data", "vec"), ("nrows", "nat"), ("ncols", "nat")]},
             struct_mk={"Matrix": "Cv.Mat.mk"})
_ROT = dict(adts={"Axis": "Cv.Rot.Axis", "Matrix": "Cv.Mat α"},
            adt_ctors={"Axis::X": "Cv.Rot.Axis.X", "Axis::Y": "Cv.Rot.Axis.Y", "Axis::Z": "Cv.Rot.Axis.Z"},
            fns={"Matrix::new": "Cv.Shape.mnew"}, fn_ret={"Matrix::new": _MAT}, opt_fns=("Matrix::new",))
C15M = dict(
    imports=["Compute.Model.Scalar", "Compute.Model.Constructors", "Compute.Model.Rotations"],
    variables=MUT_CLASSES,
    about="src/linalg/utils.rs: the constructors `linspace`, `diag`, `vandermonde`, `transpose`, `row_to_col_major`,\n"
          "`col_to_row_major`, `diag_matrix`, `arange`, `toeplitz` (whole functions); `is_matrix(a, r).unwrap()` is\n"
          "`Cv.Shape.isMatrixU a.length r`; `x as usize` of an f64 (saturating cast) is the PARAMETER `toUsize`; `0..n as i32` is the\n"
          "list of the casts `(k : Int)`, `k < n`, `(e) as usize` of an `i32` is `Int.toNat`, `(i - j).abs() as usize` is `Int.natAbs`.\n"
          "src/linalg/array/matrix.rs `Matrix::eye` and src/linalg/rotations.rs `rotation_matrix_cw` / `_ccw`: a `Matrix` value is the\n"
          "record `Cv.Mat α` (`m.data[i] = e` updates the field, the result is `Cv.Mat.mk data nrows ncols`), `Matrix::new` /\n"
          "`Self::zeros` are `Cv.Shape.mnew` / `Cv.Ctor.zeros` (`none` = panic), `match axis { .. }` is a Lean `match`, an array\n"
          "literal of f64 is a list.\n"
          "`Vector` is `List α` (`Vector::new` / `Vector::from` / `collect::<Vector>()` are the identity), `vec![a]` is `[a]`,\n"
          "`v.push(e)` in a loop is `acc ++ [e]`, `x[i]` is `x[i]!` (index panics not modelled), `(num - 1)` of `usize` is CHECKED\n"
          "(guard `1 ≤ num`), `is_square(a).unwrap()` is `Cv.Ctor.isSquareLen a.length` (`none` = panic), `v.powi(i as i32)` is\n"
          "`Cv.powi v (i : Int)` (the `i32` wrap of `i as i32` is not modelled).",
    functions=[
        _m(_UT, "linspace", "linspace", index_read=None),
        _m(_UT, "diag", "diag", index_read=None, fns={"is_square": "Cv.Ctor.isSquareLen {0}.length"},
           fn_ret={"is_square": "nat"}, opt_fns=("is_square",)),
        _m(_UT, "vandermonde", "vandermonde", index_read=None),
        # fourth pass
        _m(_UT, "transpose", "transpose", index_read=None, **_ISM),
        _m(_UT, "row_to_col_major", "rowToColMajor", index_read=None, **_ISM),
        _m(_UT, "col_to_row_major", "colToRowMajor", index_read=None, **_ISM),
        _m(_UT, "diag_matrix", "diagMatrix", index_read=None),
        _m(_UT, "arange", "arange", index_read=None, f64_to_usize="toUsize {0}", extra_binders=[("toUsize", "α → Nat")]),
        _m(_UT, "toeplitz", "toeplitz", index_read=None),
        _m("src/linalg/array/matrix.rs", "Matrix::eye", "eye", index_read=None, fns={"Self::zeros": "Cv.Ctor.zeros"},
           fn_ret={"Self::zeros": _MAT}, opt_fns=("Self::zeros",), **_MATS),
        _m("src/linalg/rotations.rs", "rotation_matrix_cw", "rotationMatrixCw", index_read=None, **_ROT),
        _m("src/linalg/rotations.rs", "rotation_matrix_ccw", "rotationMatrixCcw", index_read=None, **_ROT),
    ],
)

C19M = dict(
    imports=["Compute.Model.Scalar", "Compute.Model.Resample"],
    variables=MUT_CLASSES,
    about="src/validation/resample.rs: `jackknife` (whole function).  `data.split_at(i)` is `(take i data, drop i data)`,\n"
          "`back.split_first().unwrap()` is `(back[0]!, back.tail)` (the panic on an empty slice is an index panic: not modelled —\n"
          "the model `Cv.Resample.leaveOut` keeps it, and SrcTieC19Mut proves it cannot happen), `v.extend_from_slice(rest)` is\n"
          "`v ++ rest`, `resamples.push(v)` is `resamples ++ [v]`.",
    functions=[
        _m("src/validation/resample.rs", "jackknife", "jackknife", index_read=None),
    ],
)

C05M = dict(
    imports=["Compute.Model.Scalar", "Compute.Model.Matmul"],
    variables=MUT_CLASSES,
    about="src/linalg/utils.rs: the naive product loops of `matmul` (`#[cfg(not(feature = \"blas\"))]` path) as a FRAGMENT:\n"
          "`for i in 0..m { for k in 0..l { let temp = a[i*l+k]; for j in 0..n { c[i*n+j] += temp * b[k*n+j]; } } }` as a function of\n"
          "its free variables `a b c m l n` (the value is `c` after the loops).  The function as a whole (`#[cfg]` blocks, the\n"
          "recursive both-transposed shortcut, `if`-expressions that call `transpose`) is outside the subset and stays covered by the\n"
          "bit-exact tie; so do the tile loops of `matmul_blocked` (their bounds contain the `usize` division `n / bsize`, a panic\n"
          "source inside a loop header).  `x[i]` is `x[i]!`, `c[i] += e` is `List.set c i (c[i]! + e)` (index panics not modelled).",
    functions=[
        (_UT, "matmul", O("matmulLoops", mut=True, int_arith=True, closure=dict(kind="for", index=0, free={
            "a": ("a", "vec"), "b": ("b", "vec"), "c": ("c", "vec", "mut"), "m": ("m", "nat"), "l": ("l", "nat"),
            "n": ("n", "nat")}))),
    ],
)

_AD = "src/optimize/adam.rs"
_SG = "src/optimize/sgd.rs"


# every fragment takes ALL hyper-parameters as binders, so that a formula using the wrong one is still inside the subset
# (and fails its theorem) instead of degrading to a note
_ADHP = {"self.stepsize": "ss", "self.beta1": "b1", "self.beta2": "b2", "self.epsilon": "eps"}
_SGHP = {"self.stepsize": "ss", "self.momentum": "mom"}


def _fm(file, fn, leanname, **frag):
    return (file, fn, O(leanname, mut=True, int_arith=True, closure=frag))


C10M = dict(
    imports=["Compute.Model.Scalar"],
    variables=MUT_CLASSES,
    about="src/optimize/adam.rs, src/optimize/sgd.rs: the per-parameter update formulas of the `for p in 0..param_len` loops of\n"
          "`Adam::optimize` / `SGD::optimize` as scalar FRAGMENTS (right-hand sides of the assignments `m[p] = ..`, `v[p] = ..`,\n"
          "`params[p] = ..`, `update_vec[p] = ..` and the `let`s `mhat`, `vhat`).  `m[p]`, `v[p]`, `grad[p]`, `update_vec[p]`, `params[p]` are\n"
          "scalars, `self.beta1` … binders; `params[p]` is a tape variable `reverse::Var`: its value, and `Var - f64` is spelled as the\n"
          "crate implements it, `val + (-rhs)`; `t as i32` is the cast `Nat → Int` (the `i32` wrap is not modelled).  The\n"
          "functions as a whole (`while`, closures over the tape, `eprintln!`) are outside the subset.",
    functions=[
        _fm(_AD, "Adam::optimize", "adamM", kind="assign", name="m", index=0, free=dict(_ADHP),
            index_vars={("m", "p"): "m", ("grad", "p"): "g"}),
        _fm(_AD, "Adam::optimize", "adamV", kind="assign", name="v", index=0, free=dict(_ADHP),
            index_vars={("v", "p"): "v", ("grad", "p"): "g"}),
        _fm(_AD, "Adam::optimize", "adamMhat", kind="let", name="mhat", free=dict(_ADHP, t=("t", "nat")),
            index_vars={("m", "p"): "m'"}),
        _fm(_AD, "Adam::optimize", "adamVhat", kind="let", name="vhat", free=dict(_ADHP, t=("t", "nat")),
            index_vars={("v", "p"): "v'"}),
        _fm(_AD, "Adam::optimize", "adamTheta", kind="assign", name="params", index=0,
            free=dict(_ADHP, mhat="mhat", vhat="vhat"), index_vars={("params", "p"): ("θ", "var")}),
        _fm(_SG, "SGD::optimize", "sgdU", kind="assign", name="update_vec", index=0, free=dict(_SGHP),
            index_vars={("update_vec", "p"): "u", ("grad", "p"): "g"}),
        _fm(_SG, "SGD::optimize", "sgdTheta", kind="assign", name="params", index=0, free=dict(_SGHP),
            index_vars={("params", "p"): ("θ", "var"), ("update_vec", "p"): "u'"}),
    ],
)

_C01F = {"is_square": "Cv.LA.isSquare {0}.length", "is_matrix": "Cv.LA.isMatrix {0}.length {1}",
         "row_to_col_major": "Cv.LA.rowToColMajor", "col_to_row_major": "Cv.LA.colToRowMajor",
         "is_positive_definite": "Cv.LA.isPositiveDefinite", "is_exactly_symmetric": "Cv.LA.isExactlySymmetric",
         "try_cholesky": "Cv.LA.tryCholesky", "cholesky_solve": "Cv.LA.choleskySolve", "lu": "Cv.LA.lu",
         "lu_solve": "Cv.LA.luSolve", "diag_matrix": "Cv.Src.C15Mut.diagMatrix", "solve_sys": "solveSys"}
_C01R = {"is_square": "nat", "is_matrix": "nat", "row_to_col_major": "vec", "col_to_row_major": "vec",
         "is_positive_definite": "bool", "is_exactly_symmetric": "bool", "try_cholesky": ("opt", "vec"),
         "cholesky_solve": "vec", "lu": ("tup", ("vec", ("list", "nat"))), "lu_solve": "vec", "diag_matrix": "vec",
         "solve_sys": "vec"}
_C01O = ("is_square", "is_matrix", "row_to_col_major", "col_to_row_major", "is_positive_definite", "is_exactly_symmetric",
         "try_cholesky", "cholesky_solve", "lu", "lu_solve", "solve_sys")


def _c01(path, name):
    return _m(_UT, path, name, index_read=None, fns=dict(_C01F), fn_ret=dict(_C01R), opt_fns=_C01O, cfg_features="CARGO")


C01M = dict(
    imports=["Compute.Model.Scalar", "Compute.Model.Solve", "Compute.Generated.SrcC15Mut"],
    variables=MUT_CLASSES,
    about="src/linalg/utils.rs: the solver entry points `solve`, `solve_sys`, `invert_matrix` as WHOLE functions (`#[cfg(feature =\n"
          "\"lapack\")]` blocks resolved with the default cargo features, CFG_FEATURES below).  Called crate functions are the model\n"
          "functions of Model/Decomp.lean / Solve.lean (`none` = panic): `is_square(m).unwrap()` = `Cv.LA.isSquare m.length`,\n"
          "`is_matrix(m, r).unwrap()` = `Cv.LA.isMatrix m.length r`, `row_to_col_major`, `col_to_row_major`, `is_positive_definite`,\n"
          "`is_exactly_symmetric` (`Option Bool`), `try_cholesky` (`Option (Option _)`), `cholesky_solve`, `lu` (pivots as `List Nat`, as the\n"
          "model keeps them), `lu_solve`; `diag_matrix` is the generated `Cv.Src.C15Mut.diagMatrix`.  The short-circuit `p(a) && q(a)` of two\n"
          "panicking predicates evaluates `q` only when `p` holds; `if c { try_cholesky(a) } else { None }` is evaluated in `Option`;\n"
          "`if let Some(l) = l { A } else { B }` is a `match`; the per-column loops (`cholesky_solve` / `lu_solve` + `assert_eq!` inside the\n"
          "body) are `List.foldlM` in the panic `Option`; `solutions.extend_from_slice(&sol)` is `solutions ++ sol`.",
    functions=[
        _c01("solve", "solve"),
        _c01("solve_sys", "solveSys"),
        _c01("invert_matrix", "invertMatrix"),
    ],
)

# --------------------------------------------------------------------------------------------------- C18 (fifth pass)
_DSN2 = _DSN + ("ChiSquared", "Binomial", "DiscreteUniform")
_dsT = lambda n: "Cv.DS.DiscreteUniform" if n == "DiscreteUniform" else "Cv.DS.%s α" % n
_ds2 = lambda n: ("adt", n, _dsT(n))
_DST2 = dict(_DST, ChiSquared=[("dof", "nat"), ("sampler", _ds2("Gamma"))], Binomial=[("n", "nat"), ("p", "f64")],
             DiscreteUniform=[("lower", "int"), ("upper", "int")])
_DFILE2 = dict(_DFILE, ChiSquared="chi_squared.rs", Binomial="binomial.rs", DiscreteUniform="discreteuniform.rs")
_SETTERS = {"Bernoulli": ["set_p"], "Beta": ["set_alpha", "set_beta"], "Binomial": ["set_n", "set_p"], "ChiSquared": ["set_dof"],
            "DiscreteUniform": ["set_lower", "set_upper"], "Exponential": ["set_lambda"], "Gamma": ["set_alpha", "set_beta"],
            "Gumbel": ["set_mu", "set_beta"], "Normal": ["set_mu", "set_sigma"], "Pareto": ["set_alpha", "set_minval"],
            "Poisson": ["set_lambda"], "T": ["set_dof"], "Uniform": ["set_lower", "set_upper"]}
_camel = lambda m: re.sub(r"_(\w)", lambda k: k.group(1).upper(), m)
_NEWGEN = ("ChiSquared", "Binomial", "DiscreteUniform")      # constructors generated in THIS table


def _c18o(n, **kw):
    newfn = lambda k: ("%s_new" % k) if k in _NEWGEN else "Cv.DS.%s.new" % k
    o = dict(mut=True, int_arith=True, adts={k: _dsT(k) for k in _DSN2}, struct_types=_DST2,
             struct_mk={k: "Cv.DS.%s.mk" % k for k in _DSN2},
             fns=dict({k + "::new": newfn(k) for k in _DSN2}, **{"Self::new": newfn(n)}),
             fn_ret=dict({k + "::new": _ds2(k) for k in _DSN2}, **{"Self::new": _ds2(n)}),
             opt_fns=tuple(k + "::new" for k in _DSN2) + ("Self::new",),
             f64_to_usize="Cv.DS.CastInt.toU64 {0}", f64_to_i64="Cv.DS.CastInt.toI64 {0}")
    o.update(kw)
    return o


def _c18_functions():
    out = []
    for n in _NEWGEN:
        out.append((_D + _DFILE2[n], n + "::new", O(n + "_new", **_c18o(n))))
    for n in sorted(_SETTERS):
        for m in _SETTERS[n]:
            out.append((_D + _DFILE2[n], "%s::%s" % (n, m), O("%s_%s" % (n, _camel(m)), **_c18o(n, state_fn=True))))
        out.append((_D + _DFILE2[n], n + "::update", O(n + "_update", **_c18o(
            n, state_fn=True, state_calls={m: "%s_%s" % (n, _camel(m)) for m in _SETTERS[n]}))))
        out.append((_D + _DFILE2[n], n + "::default", O(n + "_default", **_c18o(n))))
    return out


C18M = dict(
    imports=["Compute.Model.Scalar", "Compute.Model.DistState"],
    variables=ALL_CLASSES + " [Inhabited α] [Cv.DS.CastInt α]",
    about="src/distributions/*.rs (13 univariate distributions): every `set_*` and `Distribution1D::update` as a STATE TRANSFORMER\n"
          "`S → args → S × Bool` (new state, panicked; a panic keeps the assignments made before it — the convention of\n"
          "Model/DistState.lean), `impl Default` (= `new` at the default parameters), and the constructors with integer parameters\n"
          "(`ChiSquared::new(usize)`, `Binomial::new(u64, f64)`, `DiscreteUniform::new(i64, i64)`; `usize`/`u64` are `Nat`, `i64` is `Int`).\n"
          "`if c { panic!() }` / `assert!(c)` are `if c then (d, true) else ..` / `if c then .. else (d, true)`; `self.f = e` is\n"
          "`{ d with f := e }` (a panicking sub-constructor in `e` is a `match`); `self.set_a(x).set_b(y)` calls the generated setters left\n"
          "to right and stops at the first that panics; `*self = Self::new(..)` replaces the state; `params[k]` is `match ps[k]? with`\n"
          "(`none` = index panic), evaluated where the source evaluates it; `x as usize` / `as u64` / `as i64` of an f64 are\n"
          "`Cv.DS.CastInt.toU64` / `toI64`.",
    functions=_c18_functions(),
)

def _fc(file, fn, leanname, kw=None, **frag):
    return (_D + file, fn, O(leanname, mut=True, int_arith=True, closure=frag, **(kw or {})))


C03M = dict(
    imports=["Compute.Model.Scalar", "Compute.Model.Samplers", "Compute.Model.SrcDraw"],
    variables=ALL_CLASSES + " [Inhabited α] [Cv.FiniteTest α]",
    about="src/distributions/{poisson,binomial,t,beta}.rs: the ROUTING conditions of `Poisson::sample` (`lambda < 10.`) and\n"
          "`Binomial::sample` (the end-point test `|p - 1| <= EPSILON`, the flip `p > 0.5`, the flipped probability, the threshold\n"
          "`p * n <= 30.`) as Boolean / scalar FRAGMENTS, and the compositions `T::sample`, `Beta::sample` as functions of the draws of\n"
          "their sub-samplers: `Normal::default().sample()` is the parameter `z`, `Gamma::new(a, b).sample()` is `gsample a b`,\n"
          "`self.alpha_gen.sample()` / `self.beta_gen.sample()` are `x` / `y`, `alea::f64()` is `u`.\n"
          "Redraw loops (F53, F54) `let mut u = D; while u == 0. { u = D; } tail(u)` with `D` a draw of the generator: the whole body is\n"
          "`(Cv.SrcDraw.redrawWhile (fun u => u == 0) draw fuel g).map fun r => (tail r.1, r.2)` over an abstract `draw : Rng → α × Rng`\n"
          "(fuel-bounded: `none` = `fuel` zero draws in a row) — `Exponential/Gumbel/Pareto_sampleLoop`, and `Gamma_prepareLoop` for the\n"
          "`then` block of `Gamma::sample`'s boost; `Gamma_boost` is the value after that loop.",
    functions=[
        _fc("poisson.rs", "Poisson::sample", "Poisson_route", kind="cond", index=0, free={"self.lambda": "lambda"}),
        _fc("binomial.rs", "Binomial::sample", "Binomial_edge", kw=dict(consts={"f64::EPSILON": "Cv.epsC"}), kind="cond", index=1,
            free={"self.p": "p"}),
        _fc("binomial.rs", "Binomial::sample", "Binomial_switch", kind="let", name="switch", bool=True, free={"self.p": "p"}),
        _fc("binomial.rs", "Binomial::sample", "Binomial_p", kind="let", name="p",
            free={"self.p": "p", "switch": ("switch", "bool")}),
        _fc("binomial.rs", "Binomial::sample", "Binomial_small", kind="cond", index=3,
            free={"p": "p'", "self.n": ("n", "nat")}),
        (_D + "t.rs", "T::sample", O("T_sample", mut=True, extra_binders=[("z", "α"), ("gsample", "α → α → α")],
                                     field_calls={"Normal::default.sample": ("z", "f64"),
                                                  "Gamma::new.sample": ("(gsample {0} {1})", "f64")})),
        # redraw loops (F53 / F54): whole bodies over an abstract generator, and the boost expression of `Gamma::sample`
        (_D + "exponential.rs", "Exponential::sample", O("Exponential_sampleLoop", self_fields=["lambda"],
                                                         redraw=dict(draws=["self.rng.sample()"], state="Cv.Rng"))),
        (_D + "gumbel.rs", "Gumbel::sample", O("Gumbel_sampleLoop", self_fields=["mu", "beta"], type_alias={"Self::Output": "f64"},
                                               redraw=dict(draws=["self.uniform_gen.sample()"], state="Cv.Rng"))),
        (_D + "pareto.rs", "Pareto::sample", O("Pareto_sampleLoop", self_fields=["alpha", "minval"],
                                               redraw=dict(draws=["alea::f64()"], state="Cv.Rng"))),
        (_D + "gamma.rs", "Gamma::sample", O("Gamma_prepareLoop", self_fields=["alpha"],
                                             redraw=dict(draws=["self.uniform_gen.sample()"], state="Cv.Rng", while_index=0))),
        _fc("gamma.rs", "Gamma::sample", "Gamma_boost", kind="after_while", index=0, free={"u": "u", "self.alpha": "alpha"}),
        (_D + "beta.rs", "Beta::sample", O("Beta_sample", mut=True, self_fields=["alpha", "beta"], fns={"alea::f64": "u"},
                                           extra_binders=[("x", "α"), ("y", "α"), ("u", "α")],
                                           field_calls={"alpha_gen.sample": ("x", "f64"), "beta_gen.sample": ("y", "f64")})),
    ],
)

_AR = "src/timeseries/autoregressive.rs"
_ARO = dict(mut=True, int_arith=True, fns={"dot": "Cv.dot8"}, self_fields=["coeffs", "intercept"])
C13M = dict(
    imports=["Compute.Model.Scalar", "Compute.Model.Kernels", "Compute.Model.Timeseries"],
    variables=MUT_CLASSES,
    about="src/timeseries/autoregressive.rs: `AR::predict_one_centred` (both branches: a history at least as long as the coefficient\n"
          "vector, and the SHORT-history branch `dot(data, &coeffs[coeff_len - n..])`) and `AR::predict_one` as whole functions of the\n"
          "fields `coeffs`, `intercept`.  The checked `usize` subtractions `n - coeff_len` / `coeff_len - n` are guards inside their\n"
          "branches (`none` = panic); `a.saturating_sub(b)` is the truncated subtraction of `Nat`; `dot` is `Cv.dot8` (length assert not\n"
          "modelled); `self.predict_one_centred(..)` is the generated definition.",
    functions=[
        (_AR, "AR::predict_one_centred", O("predictOneCentred", **_ARO)),
        (_AR, "AR::predict_one", O("predictOne", self_methods={"predict_one_centred": ("predictOneCentred", "f64", True)},
                                   **_ARO)),
    ],
)

C14M = dict(
    imports=["Compute.Model.Scalar", "Compute.Model.Poly"],
    variables=MUT_CLASSES,
    about="src/predict/polynomial.rs: `PolynomialRegressor::fit` as a whole function of the field `coef` and the data; its VALUE is the new\n"
          "`coef` (`self.update(&coeffs)` stores its argument: `update` is `self.coef = params.to_owned()`).  `vandermonde`, `xtx`,\n"
          "`invert_matrix`, `matmul` are the model functions `Cv.Poly.vandermonde`, `Cv.xtx`, `Cv.invertMatrix`, `Cv.matmul` (`none` = panic),\n"
          "themselves tied in SrcTieC15Mut / C05Mut2 / C01Mut.",
    functions=[
        ("src/predict/polynomial.rs", "PolynomialRegressor::fit", O(
            "fit", mut=True, int_arith=True, mut_self_value=True, self_fields=["coef"], type_alias={"&mutSelf": "Vec<f64>"},
            self_methods={"update": ("{0}", "vec", False)},
            fns={"vandermonde": "Cv.Poly.vandermonde", "xtx": "Cv.xtx", "invert_matrix": "Cv.invertMatrix", "matmul": "Cv.matmul"},
            fn_ret={"vandermonde": "vec", "xtx": "vec", "invert_matrix": "vec", "matmul": "vec"},
            opt_fns=("xtx", "invert_matrix", "matmul"))),
    ],
)

C04M = dict(
    imports=["Compute.Model.Scalar", "Compute.Model.Kernels"],
    variables=MUT_CLASSES,
    about="src/linalg/utils.rs: the two kernels every other generated file calls BY NAME (`Cv.sum8`, `Cv.dot8`): `sum` and `dot` as whole\n"
          "functions (`#[cfg(not(feature = \"blas\"))]` path, CFG_FEATURES below): `chunks = (n - n % 8) / 8` (the checked subtraction is a\n"
          "guard, the literal divisor 8 cannot panic), the 8-way unrolled main loop `for i in 0..chunks` with its `assert!(n > idx + 7)` (a\n"
          "panic source inside the loop body: `List.foldlM` in the panic `Option`) and ONE accumulator `s += t0 + t1 + .. + t7` in the\n"
          "source's left-to-right association, then the scalar tail (`x.iter().take(n).skip(chunks * 8)` for `sum`, `(chunks * 8)..n` for\n"
          "`dot`).  `x[i]` is `x[i]!`; `dot` starts with `assert_eq!(x.len(), y.len())`.",
    functions=[
        _m(_UT, "sum", "sum", index_read=None, cfg_features="CARGO"),
        _m(_UT, "dot", "dot", index_read=None, cfg_features="CARGO"),
    ],
)

TABLE_MUT = {"C01": C01M, "C04": C04M, "C03": C03M, "C13": C13M, "C14": C14M, "C18": C18M, "C05": C05M, "C10": C10M, "C11": C11M, "C15": C15M, "C19": C19M}

# theorems of Compute/Props/SrcTieCxxMut.lean the check must find
REQUIRED_MUT = {
    "C04": ["Cv.SrcTie.C04Mut.sum_eq", "Cv.SrcTie.C04Mut.dot_eq"],
    "C14": ["Cv.SrcTie.C14Mut.fit_eq"],
    "C13": ["Cv.SrcTie.C13Mut.predictOneCentred_eq", "Cv.SrcTie.C13Mut.predictOne_eq"],
    "C03": ["Cv.SrcTie.C03Mut." + n for n in ("Poisson_sample_route", "Binomial_sample_routes", "T_sample_eq", "Beta_sample_eq",
                                              "redrawWhile_eq_redrawNonzero", "Exponential_sampleLoop_eq", "Gumbel_sampleLoop_eq",
                                              "Pareto_sampleLoop_eq", "Gamma_prepareLoop_eq", "Gamma_boost_eq")],
    "C18": (["Cv.SrcTie.C18Mut.%s_new_eq" % n for n in _NEWGEN]
            + ["Cv.SrcTie.C18Mut.%s_%s_eq" % (n, _camel(m)) for n in sorted(_SETTERS) for m in _SETTERS[n]]
            + ["Cv.SrcTie.C18Mut.%s_update_eq" % n for n in sorted(_SETTERS)]
            + ["Cv.SrcTie.C18Mut.%s_default_eq" % n for n in sorted(_SETTERS)]),
    "C01": ["Cv.SrcTie.C01Mut.solve_eq", "Cv.SrcTie.C01Mut.solveSys_eq", "Cv.SrcTie.C01Mut.invertMatrix_eq"],
    "C05": ["Cv.SrcTie.C05Mut.matmulLoops_eq"],
    "C10": ["Cv.SrcTie.C10Mut.adamCoord_eq", "Cv.SrcTie.C10Mut.sgdCoord_eq", "Cv.SrcTie.C10Mut.sgdUpd_cons"],
    "C11": ["Cv.SrcTie.C11Mut." + n for n in (
        "forwardSubstitution_eq", "backwardSubstitution_eq", "lu_eq", "luSolve_eq", "tryCholesky_eq", "cholesky_eq",
        "choleskySolve_eq")],
    "C15": ["Cv.SrcTie.C15Mut." + n for n in ("linspace_eq", "diag_eq", "vandermonde_eq", "transpose_eq", "rowToColMajor_eq",
                                              "colToRowMajor_eq", "diagMatrix_eq", "arange_eq", "toeplitz_eq", "eye_eq",
                                              "rotationMatrixCw_eq", "rotationMatrixCcw_eq")],
    "C19": ["Cv.SrcTie.C19Mut.jackknife_eq"],
}

# =================================================================================================== MUT2
# Fourth pass: further whole functions of properties that already have a (wired) TABLE_MUT entry go to a SECOND table, so
# that the committed Generated/SrcCxxMut.lean files stay byte-identical: Generated/SrcCxxMut2.lean (namespace
# Cv.Src.CxxMut2), Props/SrcTieCxxMut2.lean, `wire_mut2(globals(), "Cxx")`.  Same translator option (`mut`).
def _cargo_default_features(repo="/repo"):
    """the cargo features the crate is built with by default: the `default = [..]` entry of `[features]` in Cargo.toml
    (none if there is no such entry)"""
    try:
        txt = open(os.path.join(repo, "Cargo.toml")).read()
    except OSError:
        return ()
    m = re.search(r"^\[features\](.*?)(^\[|\Z)", txt, re.S | re.M)
    if not m:
        return ()
    d = re.search(r"^default\s*=\s*\[(.*?)\]", m.group(1), re.S | re.M)
    return tuple(re.findall(r'"([^"]+)"', d.group(1))) if d else ()


_MMF = {"is_matrix": "Cv.isMatrix", "transpose": "Cv.transpose", "std::cmp::min": "min", "cmp::min": "min"}
_MMR = {"is_matrix": "nat", "transpose": "vec", "matmul": "vec", "std::cmp::min": "nat", "cmp::min": "nat"}
_MMREC = [("rec", "List α → List α → Nat → Nat → Bool → Bool → Option (List α)")]
C05M2 = dict(
    imports=["Compute.Model.Scalar", "Compute.Model.Matmul"],
    variables=MUT_CLASSES,
    about="src/linalg/utils.rs: `matmul` and `matmul_blocked` as WHOLE functions.  `#[cfg(feature = ..)]` blocks are resolved with the\n"
          "features the crate is built with by default (`default` entry of `[features]` in Cargo.toml; CFG_FEATURES below): a block\n"
          "that is not compiled in is skipped, the enabled one is inlined.  `is_matrix(a, r).unwrap()` is `Cv.isMatrix a r`, `transpose`\n"
          "is `Cv.transpose` (`none` = panic); `let a = if transpose_a { transpose(a, rows_a) } else { a.to_vec() }` is evaluated in\n"
          "`Option` (only the taken branch can panic); the recursive call of `matmul` (both-transposed shortcut) is the parameter `rec`;\n"
          "the `usize` divisions `n / bsize`, `l / bsize` of the tile-loop headers are guarded once by `0 < bsize` around the loop nest.",
    functions=[
        _m(_UT, "matmul", "matmul", index_read=None, fns=dict(_MMF, matmul="rec"), fn_ret=dict(_MMR),
           opt_fns=("is_matrix", "transpose", "matmul"), extra_binders=_MMREC, cfg_features="CARGO"),
        _m(_UT, "matmul_blocked", "matmulBlocked", index_read=None, fns=dict(_MMF), fn_ret=dict(_MMR),
           opt_fns=("is_matrix", "transpose"), cfg_features="CARGO"),
    ],
)

TABLE_MUT2 = {"C05": C05M2}

REQUIRED_MUT2 = {
    "C05": ["Cv.SrcTie.C05Mut2.matmul_eq", "Cv.SrcTie.C05Mut2.matmulBlocked_eq"],
}

# theorems of Compute/Props/SrcTieCxx.lean the check must find (REQUIRED_THEOREMS += srctie.REQUIRED["Cxx"])
REQUIRED = {
    "C02": [
        "Cv.SrcTie.C02.xlogy_eq", "Cv.SrcTie.C02.Normal_pdf_eq", "Cv.SrcTie.C02.Normal_lnPdf_eq",
        "Cv.SrcTie.C02.Normal_cdf_eq", "Cv.SrcTie.C02.Normal_mean_eq", "Cv.SrcTie.C02.Normal_var_eq",
        "Cv.SrcTie.C02.Gamma_pdf_eq", "Cv.SrcTie.C02.Gamma_mean_eq", "Cv.SrcTie.C02.Gamma_var_eq",
        "Cv.SrcTie.C02.Beta_pdf_eq", "Cv.SrcTie.C02.Beta_mean_eq", "Cv.SrcTie.C02.Beta_var_eq",
        "Cv.SrcTie.C02.ChiSquared_pdf_eq", "Cv.SrcTie.C02.ChiSquared_mean_eq", "Cv.SrcTie.C02.ChiSquared_var_eq",
        "Cv.SrcTie.C02.T_pdf_eq", "Cv.SrcTie.C02.T_mean_eq", "Cv.SrcTie.C02.T_var_eq", "Cv.SrcTie.C02.Pareto_pdf_eq",
        "Cv.SrcTie.C02.Pareto_mean_eq", "Cv.SrcTie.C02.Pareto_var_eq", "Cv.SrcTie.C02.Gumbel_pdf_eq",
        "Cv.SrcTie.C02.Gumbel_mean_eq", "Cv.SrcTie.C02.Gumbel_var_eq", "Cv.SrcTie.C02.Exponential_pdf_eq",
        "Cv.SrcTie.C02.Exponential_mean_eq", "Cv.SrcTie.C02.Exponential_var_eq", "Cv.SrcTie.C02.Uniform_pdf_eq",
        "Cv.SrcTie.C02.Uniform_mean_eq", "Cv.SrcTie.C02.Uniform_var_eq", "Cv.SrcTie.C02.Poisson_pmf_eq",
        "Cv.SrcTie.C02.Poisson_mean_eq", "Cv.SrcTie.C02.Poisson_var_eq", "Cv.SrcTie.C02.Binomial_pmf_eq_of_i64",
        "Cv.SrcTie.C02.Binomial_mean_eq", "Cv.SrcTie.C02.Binomial_var_eq", "Cv.SrcTie.C02.Bernoulli_pmf_eq",
        "Cv.SrcTie.C02.Bernoulli_mean_eq", "Cv.SrcTie.C02.Bernoulli_var_eq", "Cv.SrcTie.C02.DiscreteUniform_pmf_eq",
        "Cv.SrcTie.C02.DiscreteUniform_mean_eq", "Cv.SrcTie.C02.DiscreteUniform_var_eq",
    ],
    "C06": [
        "Cv.SrcTie.C06.devTerms_gaussian_eq", "Cv.SrcTie.C06.devTerms_bernoulli_eq",
        "Cv.SrcTie.C06.ylogy_eq_poisson", "Cv.SrcTie.C06.ylogy_eq_quasiPoisson", "Cv.SrcTie.C06.devTerms_poisson_eq",
        "Cv.SrcTie.C06.devTerms_quasiPoisson_eq", "Cv.SrcTie.C06.devTerms_gamma_eq",
        "Cv.SrcTie.C06.devTerms_exponential_eq", "Cv.SrcTie.C06.variance_eq", "Cv.SrcTie.C06.invLink_eq",
        "Cv.SrcTie.C06.dInvLink_eq",
    ],
    "C07": [
        "Cv.SrcTie.C07.trapz_eq", "Cv.SrcTie.C07.quad5_eq",
    ],
    "C09": [
        "Cv.SrcTie.C09.beta_eq", "Cv.SrcTie.C09.gamma_eq", "Cv.SrcTie.C09.gamma_else_eq", "Cv.SrcTie.C09.lnGamma_eq",
        "Cv.SrcTie.C09.lnGamma_else_eq", "Cv.SrcTie.C09.erf_eq", "Cv.SrcTie.C09.erf_then_eq",
        "Cv.SrcTie.C09.erfF_step",
    ],
    "C03": ["Cv.SrcTie.C03." + n for n in ("Exponential_sample_eq", "Gumbel_sample_eq", "Pareto_sample_eq", "Uniform_sample_eq")],
    "C18": ["Cv.SrcTie.C18.%s_new_eq" % n for n in _DSN],
    "C12": [
        "Cv.SrcTie.C12.calcBroadcastShape_eq", "Cv.SrcTie.C12.calcBroadcastShape_fix",
    ],
    "C16": [
        "Cv.SrcTie.C16.interpOne_eq",
    ],
    "C17": [
        "Cv.SrcTie.C17.logistic_eq", "Cv.SrcTie.C17.logit_eq", "Cv.SrcTie.C17.boxcox_eq",
        "Cv.SrcTie.C17.boxcoxShifted_eq",
    ],
    "C20": [
        "Cv.SrcTie.C20.rbfFwd_eq", "Cv.SrcTie.C20.rqFwd_eq",
    ],
}


def wire(mod_globals, pid):
    """One-call wiring for tools/cv/cxx.py (put at the END of the module):  `srctie.wire(globals(), "Cxx")`.
    Adds the SrcTie proof module and its required theorems, and chains EXTRACT so that Generated/SrcCxx.lean is
    regenerated from the source on every run."""
    g = mod_globals
    g["PROOF_MODULES"] = list(g.get("PROOF_MODULES", [])) + ["Compute.Props.SrcTie" + pid]
    g["REQUIRED_THEOREMS"] = list(g.get("REQUIRED_THEOREMS", [])) + REQUIRED[pid]
    old = g.get("EXTRACT") or (lambda repo: {})
    def _extract(repo):
        from . import common as _c
        files, notes = {}, []
        for fn in (old, lambda r: extract_for(pid, r)):
            try:
                files.update(fn(repo))
            except _c.SourceDrift as e:
                files.update(e.files)
                notes.append(str(e))
        if notes:
            raise _c.SourceDrift(" || ".join(notes), files)
        return files
    g["EXTRACT"] = _extract


def wire_loops(mod_globals, pid):
    """Same as `wire` for the loop / iterator-chain tables:  `srctie.wire_loops(globals(), "Cxx")` adds the proof module
    `Compute.Props.SrcTieCxxLoops`, its required theorems, and chains EXTRACT with Generated/SrcCxxLoops.lean."""
    g = mod_globals
    g["PROOF_MODULES"] = list(g.get("PROOF_MODULES", [])) + ["Compute.Props.SrcTie%sLoops" % pid]
    g["REQUIRED_THEOREMS"] = list(g.get("REQUIRED_THEOREMS", [])) + REQUIRED_LOOPS[pid]
    old = g.get("EXTRACT") or (lambda repo: {})
    def _extract(repo):
        from . import common as _c
        files, notes = {}, []
        for fn in (old, lambda r: extract_for(pid + "Loops", r)):
            try:
                files.update(fn(repo))
            except _c.SourceDrift as e:
                files.update(e.files)
                notes.append(str(e))
        if notes:
            raise _c.SourceDrift(" || ".join(notes), files)
        return files
    g["EXTRACT"] = _extract


def wire_mut(mod_globals, pid):
    """Same as `wire` for the in-place mutation / decision tree tables:  `srctie.wire_mut(globals(), "Cxx")` adds the proof
    module `Compute.Props.SrcTieCxxMut`, its required theorems, and chains EXTRACT with Generated/SrcCxxMut.lean."""
    g = mod_globals
    g["PROOF_MODULES"] = list(g.get("PROOF_MODULES", [])) + ["Compute.Props.SrcTie%sMut" % pid]
    g["REQUIRED_THEOREMS"] = list(g.get("REQUIRED_THEOREMS", [])) + REQUIRED_MUT[pid]
    old = g.get("EXTRACT") or (lambda repo: {})
    def _extract(repo):
        from . import common as _c
        files, notes = {}, []
        for fn in (old, lambda r: extract_for(pid + "Mut", r)):
            try:
                files.update(fn(repo))
            except _c.SourceDrift as e:
                files.update(e.files)
                notes.append(str(e))
        if notes:
            raise _c.SourceDrift(" || ".join(notes), files)
        return files
    g["EXTRACT"] = _extract


def wire_mut2(mod_globals, pid):
    """Same as `wire_mut` for TABLE_MUT2:  `srctie.wire_mut2(globals(), "Cxx")` adds `Compute.Props.SrcTieCxxMut2`, its
    required theorems, and chains EXTRACT with Generated/SrcCxxMut2.lean."""
    g = mod_globals
    g["PROOF_MODULES"] = list(g.get("PROOF_MODULES", [])) + ["Compute.Props.SrcTie%sMut2" % pid]
    g["REQUIRED_THEOREMS"] = list(g.get("REQUIRED_THEOREMS", [])) + REQUIRED_MUT2[pid]
    old = g.get("EXTRACT") or (lambda repo: {})
    def _extract(repo):
        from . import common as _c
        files, notes = {}, []
        for fn in (old, lambda r: extract_for(pid + "Mut2", r)):
            try:
                files.update(fn(repo))
            except _c.SourceDrift as e:
                files.update(e.files)
                notes.append(str(e))
        if notes:
            raise _c.SourceDrift(" || ".join(notes), files)
        return files
    g["EXTRACT"] = _extract


# --------------------------------------------------------------------------------------------------- driver
def _all_pids():
    return (sorted(TABLE) + [q + "Loops" for q in sorted(TABLE_LOOPS)] + [q + "Mut" for q in sorted(TABLE_MUT)]
            + [q + "Mut2" for q in sorted(TABLE_MUT2)])


def extract_for(pid, repo):
    """{relpath under lean/: content} for one property; raises if a function left the translated subset.
    `pid` is `Cxx` (TABLE: straight-line functions), `CxxLoops` (TABLE_LOOPS: loops / iterator chains) or `CxxMut`
    (TABLE_MUT: in-place mutation / nested loops / decision trees)."""
    cfg = (TABLE_LOOPS[pid[:-5]] if pid.endswith("Loops") else TABLE_MUT2[pid[:-4]] if pid.endswith("Mut2")
           else TABLE_MUT[pid[:-3]] if pid.endswith("Mut") else TABLE[pid])
    feats = _cargo_default_features(repo)
    sources = {}
    out = []
    out.append("/- GENERATED by tools/cv/srctie.py (EXTRACT_SRC, translator tools/rs2lean.py) from /repo/src — do not edit.\n"
               "%s\n"
               "Every definition below is the Lean transcription of the CURRENT Rust source text of one function:\n"
               "same expression tree (association, operand order, position of every unary minus), same conditions.\n"
               "`Compute/Props/SrcTie%s.lean` proves each of them equal to the hand-written model. -/\n" % (
                   cfg["about"].replace("CFG_FEATURES below", "here: [%s]" % ", ".join(feats)), pid))
    for imp in cfg["imports"]:
        out.append("import %s\n" % imp)
    out.append("set_option linter.unusedVariables false\n")
    out.append("namespace Cv.Src.%s\n" % pid)
    for o in cfg.get("opens", []):
        out.append("open %s\n" % o)
    out.append("variable %s\n\n" % cfg["variables"])
    # blocks of the committed copy, used when a function has left the translated subset (the definition then stays
    # the last successfully translated one, the SrcTie theorem keeps building, and the drift is reported as a note)
    committed = []   # blocks of the committed copy, in table order: (rel, path, text)
    cpath = os.path.join(os.path.dirname(os.path.dirname(os.path.dirname(os.path.abspath(__file__)))), "lean",
                         "Compute", "Generated", "Src%s.lean" % pid)
    if os.path.exists(cpath):
        for line in open(cpath).read().splitlines(keepends=True):
            m = re.match(r"-- (\S+\.rs) :: (.+?)\s*$", line)
            if m:
                committed.append([m.group(1), m.group(2).strip(), ""])
            elif line.startswith("end Cv.Src."):
                break
            elif committed:
                committed[-1][2] += line
    notes = []
    for i, (rel, path, okw) in enumerate(cfg["functions"]):
        full = os.path.join(repo, rel)
        try:
            if rel not in sources:
                sources[rel] = rs2lean.Source(open(full).read())
            if okw.get("cfg_features") == "CARGO":
                okw = dict(okw, cfg_features=feats)
            lean = rs2lean.translate(sources[rel], path, Opts(**okw))
            out.append("-- %s :: %s\n%s\n" % (rel, path, lean))
        except (rs2lean.Unsupported, rs2lean.NotFound, OSError) as ex:
            if not (i < len(committed) and committed[i][0] == rel and committed[i][1] == path and len(committed) == len(cfg["functions"])):
                raise type(ex)("%s::%s: %s" % (rel, path, ex))
            notes.append("%s::%s left the translated Rust subset (%s: %s); the last translated definition is kept" % (
                rel, path, type(ex).__name__, ex))
            out.append("-- %s :: %s\n%s" % (rel, path, committed[i][2]))
    out.append("end Cv.Src.%s\n" % pid)
    text = "".join(out)
    if "Cv.F64Consts." in text.split("namespace Cv.Src.", 1)[1] or "Cv.LitBits.ofBits" in text:
        # a translated function mentions an f64 constant / an inexact literal through the translator's DEFAULT spelling (the table
        # gives none): the file needs the fallback classes of Model/F64Consts.lean.  (Never the case for the committed tree.)
        text = text.replace("set_option linter.unusedVariables false\n",
                            "import Compute.Model.F64Consts\nset_option linter.unusedVariables false\n", 1)
        text = re.sub(r"(\nvariable [^\n]*(?:\n  [^\n]*)*)\n\n", lambda m_: m_.group(1) + " [Cv.F64Consts α] [Cv.LitBits α]\n\n", text, 1)
    files = {"Compute/Generated/Src%s.lean" % pid: text}
    if notes:
        try:
            from . import common as _c
        except ImportError:                       # run as a script (CLI / tools/srctie_mutation.sh)
            import common as _c
        raise _c.SourceDrift(" || ".join(notes), files)
    return files


def EXTRACT_SRC(repo):
    files = {}
    for pid in _all_pids():
        files.update(extract_for(pid, repo))
    return files


def main(argv):
    repo, write, outdir, pids = "/repo", False, None, []
    i = 0
    while i < len(argv):
        a = argv[i]
        if a == "--repo":
            repo = argv[i + 1]
            i += 2
        elif a == "--write":
            write = True
            i += 1
        elif a == "--outdir":
            outdir = argv[i + 1]
            i += 2
        else:
            pids.append(a)
            i += 1
    pids = pids or _all_pids()
    rc = 0
    for pid in pids:
        for rel, content in extract_for(pid, repo).items():
            base = outdir if outdir else os.path.join(VERIF, "lean")
            path = os.path.join(base, rel)
            old = open(path).read() if os.path.exists(path) else None
            if write or outdir:
                if old != content:
                    os.makedirs(os.path.dirname(path), exist_ok=True)
                    open(path, "w").write(content)
                    print("wrote", path)
                else:
                    print("unchanged", path)
            else:
                print("%s: %s" % (rel, "up to date" if old == content else "DIFFERS from the committed copy"))
                rc |= old != content
    return rc


if __name__ == "__main__":
    sys.exit(main(sys.argv[1:]))
