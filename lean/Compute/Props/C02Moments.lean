import Compute.Props.C02
import Compute.Lemmas.C02Moments
import Compute.Lemmas.C02Gumbel
import Compute.Lemmas.C02StudentT
/-
C02 (deep part) — the mean and variance accessors ARE the first moment and the second central moment of the density / mass
function the code evaluates, as Bochner integrals over `ℝ` (`MeasureTheory.integral`, Lebesgue measure) resp. (in)finite sums;
every density has total mass one; the normal CDF is the integral of the normal density.

All statements are about the model functions of `Compute/Model/DistPdf.lean` at `ℝ`.  `Cv.C02M.Moments f m v` (defined in
`Lemmas/C02Moments.lean`) bundles: `f`, `x ↦ x·f x`, `x ↦ (x-m)²·f x` are integrable, `∫ f = 1`, `∫ x·f x = m`,
`∫ (x-m)²·f x = v`.  Each `…_moments` theorem is followed by its explicit unbundled form `…_mean_var`.
The special function `ln_gamma` is an arbitrary `F : Fns ℝ` with the hypothesis `LnGammaOK F` (`exp (F.lnGamma z) = Γ z`, `z > 0`),
as in `Props/C02.lean`; `realFns` satisfies it.  Hypotheses on the parameters are the constructor guards (`….valid … = true`)
except where the guard allows a degenerate law without density (Normal `σ = 0`, Uniform `a = b`).

Proved here: mass / mean / variance for Exponential, Uniform, Gamma, ChiSquared, Beta, Normal, Pareto (with divergence of the
moments exactly where the code reports `∞`), Student's t (mass for `ν > 0`, mean for `ν > 1`, variance for `ν > 2`), Poisson (series),
Binomial (finite sums, `p ∈ [0,1]`); Gumbel total mass, CDF and mean `μ + βγ`; Normal `cdf = ∫ pdf` for the exact error function.
The `∞` / NaN regimes of Pareto and t are characterised as divergence of the corresponding integral (`…_cases`).
Not proved: the Gumbel variance `π²β²/6` as an integral (needs `Γ''(1) = γ² + π²/6`, absent from Mathlib).
-/
open scoped Cv.C02
open Cv Cv.Dist Cv.C02 ProbabilityTheory MeasureTheory

namespace Cv.C02M

variable (erf : ℝ → ℝ)

local notation "RF" => realFns erf

/-- Unbundling of `Moments`. -/
theorem Moments.explicit {f : ℝ → ℝ} {m v : ℝ} (h : Moments f m v) :
    (∫ x, f x = 1) ∧ (∫ x, x * f x = m) ∧ (∫ x, (x - m) ^ 2 * f x = v) := ⟨h.mass, h.mean, h.var⟩

/-! ## Constructor guards over `ℝ` -/

theorem exponential_valid_iff (l : ℝ) : Exponential.valid l = true ↔ 0 < l := by simp [Exponential.valid]
theorem gamma_valid_iff (a b : ℝ) : Gamma.valid a b = true ↔ 0 < a ∧ 0 < b := by simp [Gamma.valid]
theorem beta_valid_iff (a b : ℝ) : Beta.valid a b = true ↔ 0 < a ∧ 0 < b := by simp [Beta.valid]
theorem pareto_valid_iff (a m : ℝ) : Pareto.valid a m = true ↔ 0 < a ∧ 0 < m := by simp [Pareto.valid]
theorem uniform_valid_iff (a b : ℝ) : Uniform.valid a b = true ↔ a ≤ b := by simp [Uniform.valid]
theorem poisson_valid_iff (l : ℝ) : Poisson.valid l = true ↔ 0 < l := by simp [Poisson.valid]
theorem binomial_valid_iff (n : ℕ) (p : ℝ) : Binomial.valid n p = true ↔ 0 ≤ p ∧ p ≤ 1 := by simp [Binomial.valid]
theorem chiSquared_valid_iff (k : ℕ) : ChiSquared.valid k = true ↔ 0 < k := by simp [ChiSquared.valid]
theorem gumbel_valid_iff (m b : ℝ) : Gumbel.valid m b = true ↔ 0 < b := by simp [Gumbel.valid]
theorem normal_valid_iff (m s : ℝ) : Normal.valid m s = true ↔ 0 ≤ s := by simp [Normal.valid]

/-! ## Exponential -/

/-- **Exponential(λ)**, `λ > 0` (the constructor's guard): the density has total mass one, its first moment is `mean() = 1/λ` and its
second central moment is `var() = 1/λ²`. -/
theorem exponential_moments (l : ℝ) (hv : Exponential.valid l = true) :
    Moments (fun x => Exponential.pdf l x) (Exponential.mean l) (Exponential.var l) := by
  have hl := (exponential_valid_iff l).mp hv
  have hf : (fun x => Exponential.pdf l x) = gammaPDFReal 1 l := by
    funext x; rw [exponential_pdf_eq_exponentialPDFReal]; rfl
  rw [hf]
  have := gamma_moments (a := 1) one_pos hl
  simpa [Exponential.mean, Exponential.var, powi_two] using this

theorem exponential_mean_var (l : ℝ) (hv : Exponential.valid l = true) :
    (∫ x, Exponential.pdf l x = 1) ∧ (∫ x, x * Exponential.pdf l x = Exponential.mean l) ∧
    (∫ x, (x - Exponential.mean l) ^ 2 * Exponential.pdf l x = Exponential.var l) :=
  (exponential_moments l hv).explicit

example : (∫ x, x * Exponential.pdf (4 : ℝ) x = 1 / 4) ∧ (∫ x, (x - 1 / 4) ^ 2 * Exponential.pdf (4 : ℝ) x = 1 / 16) := by
  have h := exponential_mean_var 4 (by simp [Exponential.valid])
  have e1 : Exponential.mean (4 : ℝ) = 1 / 4 := rfl
  have e2 : Exponential.var (4 : ℝ) = 1 / 16 := by simp [Exponential.var, powi_two]; norm_num
  rw [e1, e2] at h
  exact ⟨h.2.1, h.2.2⟩

/-! ## Uniform -/

/-- **Uniform(a, b)**, `a < b`: total mass one, first moment `mean() = (a+b)/2`, second central moment `var() = (b-a)²/12`.
(The constructor also allows `a = b`, where the code's density is `1/0`; there is no density then.) -/
theorem uniform_moments' (a b : ℝ) (hab : a < b) :
    Moments (fun x => Uniform.pdf a b x) (Uniform.mean a b) (Uniform.var a b) := by
  have h := uniform_moments (f := fun x => Uniform.pdf a b x) hab
    (fun x hx => by rw [uniform_pdf_eq, Spec.uniformPdf, if_pos ⟨hx.1, hx.2⟩])
    (fun x hx => by
      rw [uniform_pdf_eq, Spec.uniformPdf, if_neg]
      exact fun h => hx ⟨h.1, h.2⟩)
  simpa [Uniform.mean, Uniform.var, powi_two] using h

theorem uniform_mean_var (a b : ℝ) (hab : a < b) :
    (∫ x, Uniform.pdf a b x = 1) ∧ (∫ x, x * Uniform.pdf a b x = Uniform.mean a b) ∧
    (∫ x, (x - Uniform.mean a b) ^ 2 * Uniform.pdf a b x = Uniform.var a b) :=
  (uniform_moments' a b hab).explicit

example : (∫ x, x * Uniform.pdf (1 : ℝ) 4 x = 5 / 2) ∧ (∫ x, (x - 5 / 2) ^ 2 * Uniform.pdf (1 : ℝ) 4 x = 3 / 4) := by
  have h := uniform_mean_var 1 4 (by norm_num)
  have e1 : Uniform.mean (1 : ℝ) 4 = 5 / 2 := by simp [Uniform.mean]; norm_num
  have e2 : Uniform.var (1 : ℝ) 4 = 3 / 4 := by simp [Uniform.var, powi_two]; norm_num
  rw [e1, e2] at h
  exact ⟨h.2.1, h.2.2⟩

/-! ## Gamma and ChiSquared -/

theorem gamma_pdf_ae_eq (F : Fns ℝ) (hG : LnGammaOK F) (a b : ℝ) (ha : 0 < a) (hb : 0 < b) :
    gammaPDFReal a b =ᵐ[volume] fun x => Gamma.pdf F a b x := by
  filter_upwards [ae_ne 0] with x hx
  exact (gamma_pdf_eq_gammaPDFReal F hG a b x ha hb hx).symm

/-- **Gamma(α, β)** (shape, rate), `α, β > 0`: total mass one, first moment `mean() = α/β`, second central moment `var() = α/β²`. -/
theorem gamma_moments' (F : Fns ℝ) (hG : LnGammaOK F) (a b : ℝ) (hv : Gamma.valid a b = true) :
    Moments (fun x => Gamma.pdf F a b x) (Gamma.mean a b) (Gamma.var a b) := by
  obtain ⟨ha, hb⟩ := (gamma_valid_iff a b).mp hv
  have := (gamma_moments ha hb).congr_ae (gamma_pdf_ae_eq F hG a b ha hb)
  simpa [Gamma.mean, Gamma.var, powi_two] using this

theorem gamma_mean_var (F : Fns ℝ) (hG : LnGammaOK F) (a b : ℝ) (hv : Gamma.valid a b = true) :
    (∫ x, Gamma.pdf F a b x = 1) ∧ (∫ x, x * Gamma.pdf F a b x = Gamma.mean a b) ∧
    (∫ x, (x - Gamma.mean a b) ^ 2 * Gamma.pdf F a b x = Gamma.var a b) :=
  (gamma_moments' F hG a b hv).explicit

example : (∫ x, x * Gamma.pdf RF (5 / 2) 3 x = 5 / 6) ∧ (∫ x, (x - 5 / 6) ^ 2 * Gamma.pdf RF (5 / 2) 3 x = 5 / 18) := by
  have h := gamma_mean_var RF (realFns_lnGammaOK erf) (5 / 2) 3 (by simp [Gamma.valid])
  have e1 : Gamma.mean (5 / 2 : ℝ) 3 = 5 / 6 := by simp [Gamma.mean]; norm_num
  have e2 : Gamma.var (5 / 2 : ℝ) 3 = 5 / 18 := by simp [Gamma.var, powi_two]; norm_num
  rw [e1, e2] at h
  exact ⟨h.2.1, h.2.2⟩

theorem chiSquared_pdf_ae_eq (F : Fns ℝ) (hG : LnGammaOK F) (k : ℕ) (hk : 0 < k) :
    gammaPDFReal ((k : ℝ) / 2) (1 / 2) =ᵐ[volume] fun x => ChiSquared.pdf F k x := by
  filter_upwards [ae_ne 0] with x hx
  exact (chiSquared_pdf_eq_gammaPDFReal_partial F hG k hk x hx).symm

/-- **ChiSquared(k)**, `k ≥ 1`: total mass one, first moment `mean() = k`, second central moment `var() = 2k`. -/
theorem chiSquared_moments (F : Fns ℝ) (hG : LnGammaOK F) (k : ℕ) (hv : ChiSquared.valid k = true) :
    Moments (fun x => ChiSquared.pdf F k x) (ChiSquared.mean k) (ChiSquared.var k) := by
  have hk := (chiSquared_valid_iff k).mp hv
  have hk' : (0 : ℝ) < (k : ℝ) / 2 := by positivity
  have := (gamma_moments hk' (by norm_num : (0 : ℝ) < 1 / 2)).congr_ae (chiSquared_pdf_ae_eq F hG k hk)
  convert this using 1
  · simp [ChiSquared.mean]
  · simp [ChiSquared.var]; ring

theorem chiSquared_mean_var (F : Fns ℝ) (hG : LnGammaOK F) (k : ℕ) (hv : ChiSquared.valid k = true) :
    (∫ x, ChiSquared.pdf F k x = 1) ∧ (∫ x, x * ChiSquared.pdf F k x = ChiSquared.mean k) ∧
    (∫ x, (x - ChiSquared.mean k) ^ 2 * ChiSquared.pdf F k x = ChiSquared.var k) :=
  (chiSquared_moments F hG k hv).explicit

example : (∫ x, x * ChiSquared.pdf RF 3 x = 3) ∧ (∫ x, (x - 3) ^ 2 * ChiSquared.pdf RF 3 x = 6) := by
  have h := chiSquared_mean_var RF (realFns_lnGammaOK erf) 3 (by decide)
  have e1 : (ChiSquared.mean 3 : ℝ) = 3 := by simp [ChiSquared.mean]
  have e2 : (ChiSquared.var 3 : ℝ) = 6 := by simp [ChiSquared.var]; norm_num
  rw [e1, e2] at h
  exact ⟨h.2.1, h.2.2⟩

/-! ## Beta -/

theorem beta_pdf_ae_eq (F : Fns ℝ) (hG : LnGammaOK F) (a b : ℝ) (ha : 0 < a) (hb : 0 < b) :
    betaPDFReal a b =ᵐ[volume] fun x => Beta.pdf F a b x := by
  filter_upwards [ae_ne 0, ae_ne 1] with x h0 h1
  exact (beta_pdf_eq_betaPDFReal_partial F hG a b x ha hb h0 h1).symm

/-- **Beta(α, β)**, `α, β > 0`: total mass one, first moment `mean() = α/(α+β)`, second central moment
`var() = αβ / ((α+β)² (α+β+1))`. -/
theorem beta_moments' (F : Fns ℝ) (hG : LnGammaOK F) (a b : ℝ) (hv : Beta.valid a b = true) :
    Moments (fun x => Beta.pdf F a b x) (Beta.mean a b) (Beta.var a b) := by
  obtain ⟨ha, hb⟩ := (beta_valid_iff a b).mp hv
  have := (beta_moments ha hb).congr_ae (beta_pdf_ae_eq F hG a b ha hb)
  simpa [Beta.mean, Beta.var, powi_two] using this

theorem beta_mean_var (F : Fns ℝ) (hG : LnGammaOK F) (a b : ℝ) (hv : Beta.valid a b = true) :
    (∫ x, Beta.pdf F a b x = 1) ∧ (∫ x, x * Beta.pdf F a b x = Beta.mean a b) ∧
    (∫ x, (x - Beta.mean a b) ^ 2 * Beta.pdf F a b x = Beta.var a b) :=
  (beta_moments' F hG a b hv).explicit

example : (∫ x, x * Beta.pdf RF 2 3 x = 2 / 5) ∧ (∫ x, (x - 2 / 5) ^ 2 * Beta.pdf RF 2 3 x = 1 / 25) := by
  have h := beta_mean_var RF (realFns_lnGammaOK erf) 2 3 (by simp [Beta.valid])
  have e1 : Beta.mean (2 : ℝ) 3 = 2 / 5 := by simp [Beta.mean]; norm_num
  have e2 : Beta.var (2 : ℝ) 3 = 1 / 25 := by simp [Beta.var, powi_two]; norm_num
  rw [e1, e2] at h
  exact ⟨h.2.1, h.2.2⟩

/-! ## Pareto -/

theorem pareto_pdf_fun_eq (a m : ℝ) (hm : 0 < m) : (fun x => Pareto.pdf a m x) = paretoPDFReal m a := by
  funext x; exact pareto_pdf_eq_paretoPDFReal a m x hm

/-- **Pareto mean.**  For valid parameters (`α, x_m > 0`): if `mean()` returns a finite value `μ` (this is the case `α > 1`) then
`x · pdf` is integrable and `∫ x · pdf = μ`; if it returns `∞` (`α ≤ 1`) then `x · pdf` is not integrable.  It never returns NaN. -/
theorem pareto_mean_integral (a m : ℝ) (hv : Pareto.valid a m = true) :
    match Pareto.mean a m with
    | .fin μ => Integrable (fun x => x * Pareto.pdf a m x) ∧ ∫ x, x * Pareto.pdf a m x = μ
    | .inf => ¬ Integrable (fun x => x * Pareto.pdf a m x)
    | .nan => False := by
  obtain ⟨ha, hm⟩ := (pareto_valid_iff a m).mp hv
  have hf := pareto_pdf_fun_eq a m hm
  simp only [Pareto.mean]
  by_cases h : a ≤ 1
  · rw [if_pos h]
    have := pareto_raw_not_integrable hm ha 1 (by simpa using h)
    simpa [← hf] using this
  · rw [if_neg h]
    have := pareto_mean hm (not_le.mp h)
    simpa [← hf] using this

/-- **Pareto variance.**  For valid parameters: if `var()` returns a finite value `v` (`α > 2`) then the density has total mass one,
`mean()` is finite, equal to the first moment, and `v` is the second central moment; if it returns `∞` (`α ≤ 2`) then `x² · pdf` is not
integrable.  It never returns NaN. -/
theorem pareto_var_integral (a m : ℝ) (hv : Pareto.valid a m = true) :
    match Pareto.var a m with
    | .fin v => ∃ μ, Pareto.mean a m = .fin μ ∧ Moments (fun x => Pareto.pdf a m x) μ v
    | .inf => ¬ Integrable (fun x => x ^ 2 * Pareto.pdf a m x)
    | .nan => False := by
  obtain ⟨ha, hm⟩ := (pareto_valid_iff a m).mp hv
  have hf := pareto_pdf_fun_eq a m hm
  simp only [Pareto.var, two_real]
  by_cases h : a ≤ 2
  · rw [if_pos h]
    have := pareto_raw_not_integrable hm ha 2 (by simpa using h)
    simpa [← hf] using this
  · rw [if_neg h]
    have h2 : 2 < a := not_le.mp h
    refine ⟨a * m / (a - 1), ?_, ?_⟩
    · simp only [Pareto.mean]; rw [if_neg (by linarith)]
    · have := pareto_moments hm h2
      rw [hf]
      simpa [powi_two] using this

/-- Explicit form for `α > 2`. -/
theorem pareto_mean_var (a m : ℝ) (hm : 0 < m) (ha : 2 < a) :
    (∫ x, Pareto.pdf a m x = 1) ∧ (∫ x, x * Pareto.pdf a m x = a * m / (a - 1)) ∧
    (∫ x, (x - a * m / (a - 1)) ^ 2 * Pareto.pdf a m x = m ^ 2 * a / ((a - 1) ^ 2 * (a - 2))) ∧
    Pareto.mean a m = .fin (a * m / (a - 1)) ∧ Pareto.var a m = .fin (m ^ 2 * a / ((a - 1) ^ 2 * (a - 2))) := by
  have := (pareto_moments hm ha).explicit
  rw [← pareto_pdf_fun_eq a m hm] at this
  refine ⟨this.1, this.2.1, this.2.2, ?_, ?_⟩
  · simp only [Pareto.mean]; rw [if_neg (by linarith)]
  · simp only [Pareto.var, two_real, powi_two]; rw [if_neg (by linarith)]

example : (∫ x, x * Pareto.pdf (3 : ℝ) 2 x = 3) ∧ (∫ x, (x - 3) ^ 2 * Pareto.pdf (3 : ℝ) 2 x = 3) := by
  have h := pareto_mean_var 3 2 (by norm_num) (by norm_num)
  norm_num at h
  exact ⟨h.2.1, h.2.2.1⟩

example : ¬ Integrable (fun x => x * Pareto.pdf (1 : ℝ) 2 x) := by
  have h := pareto_mean_integral 1 2 (by simp [Pareto.valid])
  simpa [Pareto.mean] using h

/-! ## Poisson -/

/-- **Poisson(λ)**, `λ > 0`: over `k = 0, 1, 2, …` (the mass function is `0` at negative `k`, `poisson_pmf_zero_of_neg`) the series
`Σ pmf k`, `Σ k · pmf k`, `Σ (k - mean())² · pmf k` converge to `1`, `mean() = λ`, `var() = λ`; given `exp (lnΓ(k+1)) = k!`. -/
theorem poisson_moments (F : Fns ℝ) (hF : ∀ n : ℕ, Real.exp (F.lnGamma ((n : ℝ) + 1)) = (n.factorial : ℝ))
    (l : ℝ) (hv : Poisson.valid l = true) :
    HasSum (fun k : ℕ => Poisson.pmf F l (k : ℤ)) 1 ∧
    HasSum (fun k : ℕ => (k : ℝ) * Poisson.pmf F l (k : ℤ)) (Poisson.mean l) ∧
    HasSum (fun k : ℕ => ((k : ℝ) - Poisson.mean l) ^ 2 * Poisson.pmf F l (k : ℤ)) (Poisson.var l) := by
  have hl := (poisson_valid_iff l).mp hv
  have e : ∀ k : ℕ, Poisson.pmf F l (k : ℤ) = poissonTerm l k := fun k => poisson_pmf_eq F hF l hl k
  simp only [e, Poisson.mean, Poisson.var]
  exact ⟨poisson_hasSum_mass l, poisson_hasSum_mean l, poisson_hasSum_var l⟩

example : HasSum (fun k : ℕ => ((k : ℝ) - 7 / 2) ^ 2 * Poisson.pmf RF (7 / 2) (k : ℤ)) (7 / 2) :=
  (poisson_moments RF (realFns_lnGamma_factorial erf) (7 / 2) (by simp [Poisson.valid])).2.2

/-! ## Binomial -/

/-- On `0 ≤ k ≤ n` the mass function is `C(n,k) p^k (1-p)^(n-k)` for every `p ∈ [0, 1]` (end points included). -/
theorem binomial_pmf_eq_term (F : Fns ℝ) (hF : ∀ n : ℕ, Real.exp (F.lnGamma ((n : ℝ) + 1)) = (n.factorial : ℝ))
    (hL : ∀ x : ℝ, F.ln1p x = Real.log (1 + x)) (n : ℕ) (p : ℝ) (hp0 : 0 ≤ p) (hp1 : p ≤ 1) (k : ℕ) (hk : k ≤ n) :
    Binomial.pmf F n p (k : ℤ) = binomTerm n p (1 - p) k := by
  rcases hp0.eq_or_lt with h0 | h0
  · subst h0; exact binomial_pmf_p_zero F n k hk
  · rcases hp1.eq_or_lt with h1 | h1
    · subst h1; exact binomial_pmf_p_one F n k hk
    · exact binomial_pmf_eq F hF hL n k hk p h0 h1

/-- **Binomial(n, p)**, `0 ≤ p ≤ 1` (the constructor's guard; any `n`): over `k = 0..n` (the mass is `0` elsewhere,
`binomial_pmf_zero_outside`) `Σ pmf k = 1`, `Σ k · pmf k = mean() = np`, `Σ (k - mean())² · pmf k = var() = np(1-p)`. -/
theorem binomial_moments (F : Fns ℝ) (hF : ∀ n : ℕ, Real.exp (F.lnGamma ((n : ℝ) + 1)) = (n.factorial : ℝ))
    (hL : ∀ x : ℝ, F.ln1p x = Real.log (1 + x)) (n : ℕ) (p : ℝ) (hv : Binomial.valid n p = true) :
    (∑ k ∈ Finset.range (n + 1), Binomial.pmf F n p (k : ℤ) = 1) ∧
    (∑ k ∈ Finset.range (n + 1), (k : ℝ) * Binomial.pmf F n p (k : ℤ) = Binomial.mean n p) ∧
    (∑ k ∈ Finset.range (n + 1), ((k : ℝ) - Binomial.mean n p) ^ 2 * Binomial.pmf F n p (k : ℤ) = Binomial.var n p) := by
  obtain ⟨hp0, hp1⟩ := (binomial_valid_iff n p).mp hv
  have e : ∀ k ∈ Finset.range (n + 1), Binomial.pmf F n p (k : ℤ) = binomTerm n p (1 - p) k := fun k hk =>
    binomial_pmf_eq_term F hF hL n p hp0 hp1 k (by simpa [Nat.lt_succ_iff] using hk)
  refine ⟨?_, ?_, ?_⟩
  · rw [Finset.sum_congr rfl e, binom_sum_mass]; simp
  · rw [Finset.sum_congr rfl (fun k hk => by rw [e k hk]), binom_sum_mean_one]; rfl
  · simp only [Binomial.mean, Binomial.var]
    rw [Finset.sum_congr rfl (fun k hk => by rw [e k hk]), binom_sum_var]

example : (∑ k ∈ Finset.range (10 + 1), (k : ℝ) * Binomial.pmf RF 10 (3 / 10) (k : ℤ) = 3) ∧
    (∑ k ∈ Finset.range (10 + 1), ((k : ℝ) - 3) ^ 2 * Binomial.pmf RF 10 (3 / 10) (k : ℤ) = 21 / 10) := by
  have h := binomial_moments RF (realFns_lnGamma_factorial erf) (fun _ => rfl) 10 (3 / 10)
    (by simp [Binomial.valid]; norm_num)
  have e1 : Binomial.mean 10 (3 / 10 : ℝ) = 3 := by simp [Binomial.mean]; norm_num
  have e2 : Binomial.var 10 (3 / 10 : ℝ) = 21 / 10 := by simp [Binomial.var]; norm_num
  rw [e1, e2] at h
  exact ⟨h.2.1, h.2.2⟩

/-! ## Normal: moments against the density, and the CDF as the integral of the density -/

/-- **Normal(μ, σ)**, `σ > 0`: the density has total mass one, first moment `mean() = μ` and second central moment `var() = σ²`,
as Lebesgue integrals against the density the code evaluates.  (The constructor also allows `σ = 0`, where the code's density is
`1/0`: a point mass has no density.) -/
theorem normal_moments (μ σ : ℝ) (hσ : 0 < σ) :
    Moments (fun x => Normal.pdf RF μ σ x) (Normal.mean μ σ) (Normal.var μ σ) := by
  have hf : (fun x => Normal.pdf RF μ σ x) = gaussianPDFReal μ (sqNN σ) := by
    funext x; exact normal_pdf_eq_gaussianPDFReal erf μ σ x hσ
  rw [hf]
  have := gaussian_moments μ (sqNN_ne_zero hσ)
  simpa [Normal.mean, Normal.var, sq] using this

theorem normal_mean_var_integral (μ σ : ℝ) (hσ : 0 < σ) :
    (∫ x, Normal.pdf RF μ σ x = 1) ∧ (∫ x, x * Normal.pdf RF μ σ x = Normal.mean μ σ) ∧
    (∫ x, (x - Normal.mean μ σ) ^ 2 * Normal.pdf RF μ σ x = Normal.var μ σ) :=
  (normal_moments erf μ σ hσ).explicit

example : (∫ x, x * Normal.pdf RF (-3) 2 x = -3) ∧ (∫ x, (x - (-3)) ^ 2 * Normal.pdf RF (-3) 2 x = 4) := by
  have h := normal_mean_var_integral erf (-3) 2 (by norm_num)
  have e1 : Normal.mean (-3 : ℝ) 2 = -3 := rfl
  have e2 : Normal.var (-3 : ℝ) 2 = 4 := by simp [Normal.var]; norm_num
  rw [e1, e2] at h
  exact ⟨h.2.1, h.2.2⟩

theorem normal_pdf_eq_normalPdfR (μ σ x : ℝ) : Normal.pdf RF μ σ x = normalPdfR μ σ x := by
  simp only [Normal.pdf, normalPdfR, realFns, powi_two, transc_sqrt, transc_exp, two_real, half_real]

theorem normal_cdf_eq_normalCdfR (herf : ∀ z, erf z = erfSpec z) (μ σ x : ℝ) :
    Normal.cdf RF μ σ x = normalCdfR μ σ x := by
  simp only [Normal.cdf, normalCdfR, realFns, transc_sqrt, two_real, half_real, herf]

/-- **The normal CDF is the integral of the normal density.**  If the `erf` the code calls is the error function
`erfSpec x = (2/√π) ∫₀ˣ e^{-t²} dt` (how well the polynomial approximation `functions::erf` satisfies this is C09's accuracy
property), then for `σ > 0` and every `x`: `cdf x = ∫_{(-∞, x]} pdf t dt`. -/
theorem normal_cdf_eq_integral (herf : ∀ z, erf z = erfSpec z) (μ σ x : ℝ) (hσ : 0 < σ) :
    Normal.cdf RF μ σ x = ∫ t in Set.Iic x, Normal.pdf RF μ σ t := by
  have hf : (fun t => Normal.pdf RF μ σ t) = normalPdfR μ σ := by
    funext t; exact normal_pdf_eq_normalPdfR erf μ σ t
  have hint : Integrable (normalPdfR μ σ) := by
    rw [← hf]; exact (normal_moments erf μ σ hσ).int0
  rw [normal_cdf_eq_normalCdfR erf herf, normalCdfR_eq_integral μ σ x hσ hint, ← hf]

/-- With the ideal error function: `cdf` is the integral of `pdf`, tends to `0` at `-∞` and to `1` at `+∞`, and has the density as
its derivative everywhere. -/
theorem normal_cdf_spec (μ σ : ℝ) (hσ : 0 < σ) :
    (∀ x, Normal.cdf (realFns erfSpec) μ σ x = ∫ t in Set.Iic x, Normal.pdf (realFns erfSpec) μ σ t) ∧
    (∀ x, HasDerivAt (fun y => Normal.cdf (realFns erfSpec) μ σ y) (Normal.pdf (realFns erfSpec) μ σ x) x) ∧
    Filter.Tendsto (fun y => Normal.cdf (realFns erfSpec) μ σ y) Filter.atBot (nhds 0) ∧
    Filter.Tendsto (fun y => Normal.cdf (realFns erfSpec) μ σ y) Filter.atTop (nhds 1) := by
  have hc : (fun y => Normal.cdf (realFns erfSpec) μ σ y) = normalCdfR μ σ := by
    funext y; exact normal_cdf_eq_normalCdfR erfSpec (fun _ => rfl) μ σ y
  refine ⟨fun x => normal_cdf_eq_integral erfSpec (fun _ => rfl) μ σ x hσ, fun x => ?_, ?_, ?_⟩
  · rw [hc, normal_pdf_eq_normalPdfR]; exact normalCdfR_hasDerivAt μ σ x hσ
  · rw [hc]; exact normalCdfR_tendsto_atBot μ σ hσ
  · rw [hc]; exact normalCdfR_tendsto_atTop μ σ hσ

example : Normal.cdf (realFns erfSpec) 1 2 (3 / 2) = ∫ t in Set.Iic (3 / 2 : ℝ), Normal.pdf (realFns erfSpec) 1 2 t :=
  (normal_cdf_spec 1 2 (by norm_num)).1 _

/-! ## Gumbel: total mass one -/

theorem gumbelCdf_tendsto_atTop (μ β : ℝ) (hβ : 0 < β) :
    Filter.Tendsto (Spec.gumbelCdf μ β) Filter.atTop (nhds 1) := by
  have h1 := Filter.tendsto_neg_atTop_atBot.comp (tendsto_arg_atTop μ hβ)
  have h2 := (Real.tendsto_exp_atBot.comp h1).neg
  have h3 := (Real.continuous_exp.tendsto _).comp h2
  have e : Real.exp (-0) = 1 := by simp
  rw [e] at h3
  exact h3

theorem gumbelCdf_tendsto_atBot (μ β : ℝ) (hβ : 0 < β) :
    Filter.Tendsto (Spec.gumbelCdf μ β) Filter.atBot (nhds 0) := by
  have h1 := Filter.tendsto_neg_atBot_atTop.comp (tendsto_arg_atBot μ hβ)
  have h2 := Filter.tendsto_neg_atTop_atBot.comp (Real.tendsto_exp_atTop.comp h1)
  exact Real.tendsto_exp_atBot.comp h2

/-- **Gumbel(μ, β)**, `β > 0` (the constructor's guard): the density is integrable over `ℝ` with total mass one, and
`∫_{(-∞,x]} pdf = exp (-exp (-(x-μ)/β))` (the Gumbel CDF). -/
theorem gumbel_pdf_integral_eq_one (μ β : ℝ) (hv : Gumbel.valid μ β = true) :
    Integrable (fun x => Gumbel.pdf μ β x) ∧ ∫ x, Gumbel.pdf μ β x = 1 := by
  have hβ := (gumbel_valid_iff μ β).mp hv
  have := integral_of_deriv_nonneg (G := Spec.gumbelCdf μ β) (g := fun x => Gumbel.pdf μ β x)
    (fun x => gumbel_pdf_hasDerivAt μ β x) (fun x => (gumbel_pdf_pos μ β x hβ).le)
    (gumbelCdf_tendsto_atBot μ β hβ) (gumbelCdf_tendsto_atTop μ β hβ)
  simpa using this

theorem gumbel_cdf_eq_integral (μ β x : ℝ) (hv : Gumbel.valid μ β = true) :
    ∫ t in Set.Iic x, Gumbel.pdf μ β t = Spec.gumbelCdf μ β x := by
  have hβ := (gumbel_valid_iff μ β).mp hv
  rw [integral_Iic_of_hasDerivAt_of_tendsto' (fun t _ => gumbel_pdf_hasDerivAt μ β t)
    (gumbel_pdf_integral_eq_one μ β hv).1.integrableOn (gumbelCdf_tendsto_atBot μ β hβ), sub_zero]

example : ∫ x, Gumbel.pdf (1 : ℝ) 2 x = 1 := (gumbel_pdf_integral_eq_one 1 2 (by simp [Gumbel.valid])).2

/-! ## Gumbel: the mean -/

theorem gumbel_pdf_eq_gumbelPdfR (μ β x : ℝ) : Gumbel.pdf μ β x = gumbelPdfR μ β x := by
  simp only [Gumbel.pdf, gumbelPdfR, transc_exp]

/-- **Gumbel(μ, β)**, `β > 0`: the first moment of the density converges absolutely and equals `mean() = μ + β·γ`, `γ` the
Euler–Mascheroni constant `Real.eulerMascheroniConstant` (via `∫₀^∞ log t · e^{-t} dt = Γ'(1) = -γ`). -/
theorem gumbel_mean_integral' (μ β : ℝ) (hv : Gumbel.valid μ β = true) :
    Integrable (fun x => x * Gumbel.pdf μ β x) ∧ ∫ x, x * Gumbel.pdf μ β x = Gumbel.mean RF μ β := by
  have hβ := (gumbel_valid_iff μ β).mp hv
  have hf : (fun x => x * Gumbel.pdf μ β x) = fun x => x * gumbelPdfR μ β x := by
    funext x; rw [gumbel_pdf_eq_gumbelPdfR]
  rw [hf]
  exact gumbel_mean_integral μ β hβ

example : ∫ x, x * Gumbel.pdf (1 : ℝ) 2 x = 1 + 2 * Real.eulerMascheroniConstant :=
  (gumbel_mean_integral' erf 1 2 (by simp [Gumbel.valid])).2

/-! ## Student's t -/

theorem t_valid_iff (ν : ℝ) : T.valid ν = true ↔ 0 < ν := by simp [T.valid]

theorem t_pdf_fun_eq (ν : ℝ) : (fun x => T.pdf RF ν x) = fun x => tConst ν * tKernel ν x := by
  funext x
  rw [t_pdf_eq, Spec.tPdf, tConst, tKernel]

/-- **Student's t(ν)**, `ν > 0` (the constructor's guard): the density is integrable with total mass one. -/
theorem t_pdf_integral_eq_one (ν : ℝ) (hv : T.valid ν = true) :
    Integrable (fun x => T.pdf RF ν x) ∧ ∫ x, T.pdf RF ν x = 1 := by
  rw [t_pdf_fun_eq]
  exact t_mass ((t_valid_iff ν).mp hv)

/-- **Student's t mean.**  Whenever `mean()` returns a finite value `m` (this is the case `ν > 1`, and then `m = 0`), `x · pdf` is
integrable and `∫ x · pdf = m`.  (For `ν ≤ 1` the code returns NaN: the first moment does not exist.) -/
theorem t_mean_integral (ν m : ℝ) (hm : T.mean ν = .fin m) :
    Integrable (fun x => x * T.pdf RF ν x) ∧ ∫ x, x * T.pdf RF ν x = m := by
  simp only [T.mean] at hm
  by_cases h : 1 < ν
  · rw [if_pos h] at hm
    have hm0 : (0 : ℝ) = m := by injection hm
    subst hm0
    have hf : (fun x => x * T.pdf RF ν x) = fun x => x * (tConst ν * tKernel ν x) := by
      funext x; rw [congrFun (t_pdf_fun_eq erf ν) x]
    rw [hf]
    exact t_mean h
  · rw [if_neg h] at hm; cases hm

/-- **Student's t variance.**  Whenever `var()` returns a finite value `v` (this is the case `ν > 2`, and then `v = ν/(ν-2)`), the density
has total mass one, first moment `0 = mean()` and second central moment `v`.  (For `1 < ν ≤ 2` the code returns `∞`, for `ν ≤ 1` NaN.) -/
theorem t_var_integral (ν v : ℝ) (hvar : T.var ν = .fin v) :
    T.mean ν = .fin 0 ∧ Moments (fun x => T.pdf RF ν x) 0 v := by
  simp only [T.var, two_real] at hvar
  by_cases h : 2 < ν
  · rw [if_pos h] at hvar
    have hv0 : ν / (ν - 2) = v := by injection hvar
    subst hv0
    refine ⟨?_, ?_⟩
    · simp only [T.mean]; rw [if_pos (by linarith)]
    · rw [t_pdf_fun_eq]; exact t_moments h
  · rw [if_neg h] at hvar
    split at hvar <;> cases hvar

/-- Explicit form for `ν > 2`. -/
theorem t_mean_var (ν : ℝ) (hν : 2 < ν) :
    (∫ x, T.pdf RF ν x = 1) ∧ (∫ x, x * T.pdf RF ν x = 0) ∧ (∫ x, (x - 0) ^ 2 * T.pdf RF ν x = ν / (ν - 2)) ∧
    T.mean ν = .fin 0 ∧ T.var ν = .fin (ν / (ν - 2)) := by
  have hvar : T.var ν = .fin (ν / (ν - 2)) := by simp only [T.var, two_real]; rw [if_pos hν]
  have h := t_var_integral erf ν _ hvar
  exact ⟨h.2.mass, h.2.mean, h.2.var, h.1, hvar⟩

example : (∫ x, T.pdf RF 5 x = 1) ∧ (∫ x, x * T.pdf RF 5 x = 0) ∧ (∫ x, x ^ 2 * T.pdf RF 5 x = 5 / 3) := by
  have h := t_mean_var erf 5 (by norm_num)
  norm_num at h
  exact ⟨h.1, h.2.1, h.2.2.1⟩

example : ∫ x, T.pdf RF (1 / 2) x = 1 := (t_pdf_integral_eq_one erf (1 / 2) (by simp [T.valid])).2

/-- **Student's t, complete case analysis of `mean()`** for valid `ν > 0`: a finite value is the absolutely convergent first moment;
NaN is returned exactly when `x · pdf` is not integrable (`ν ≤ 1`); `∞` is never returned. -/
theorem t_mean_cases (ν : ℝ) (hv : T.valid ν = true) :
    match T.mean ν with
    | .fin m => Integrable (fun x => x * T.pdf RF ν x) ∧ ∫ x, x * T.pdf RF ν x = m
    | .nan => ¬ Integrable (fun x => x * T.pdf RF ν x)
    | .inf => False := by
  have hν := (t_valid_iff ν).mp hv
  by_cases h : 1 < ν
  · have hm : T.mean ν = .fin 0 := by simp only [T.mean]; rw [if_pos h]
    rw [hm]
    exact t_mean_integral erf ν 0 hm
  · have hm : T.mean ν = .nan := by simp only [T.mean]; rw [if_neg h]
    rw [hm]
    have := t_not_integrable hν 1 (by simpa using not_lt.mp h)
    simpa [t_pdf_fun_eq erf ν] using this

/-- **Student's t, complete case analysis of `var()`** for valid `ν > 0`: a finite value `v` (`ν > 2`) is the second central moment
about the mean `0`; `∞` (`1 < ν ≤ 2`) means the mean exists but `x² · pdf` is not integrable; NaN (`ν ≤ 1`) means not even the
mean exists. -/
theorem t_var_cases (ν : ℝ) (hv : T.valid ν = true) :
    match T.var ν with
    | .fin v => T.mean ν = .fin 0 ∧ Moments (fun x => T.pdf RF ν x) 0 v
    | .inf => T.mean ν = .fin 0 ∧ ¬ Integrable (fun x => x ^ 2 * T.pdf RF ν x)
    | .nan => ¬ Integrable (fun x => x * T.pdf RF ν x) := by
  have hν := (t_valid_iff ν).mp hv
  by_cases h2 : 2 < ν
  · have hvar : T.var ν = .fin (ν / (ν - 2)) := by simp only [T.var, two_real]; rw [if_pos h2]
    rw [hvar]
    exact t_var_integral erf ν _ hvar
  · by_cases h1 : 1 < ν
    · have hvar : T.var ν = .inf := by
        simp only [T.var, two_real]; rw [if_neg h2, if_pos ⟨h1, not_lt.mp h2⟩]
      rw [hvar]
      refine ⟨by simp only [T.mean]; rw [if_pos h1], ?_⟩
      have := t_not_integrable hν 2 (by simpa using not_lt.mp h2)
      simpa [t_pdf_fun_eq erf ν] using this
    · have hvar : T.var ν = .nan := by
        simp only [T.var, two_real]; rw [if_neg h2, if_neg (fun h => h1 h.1)]
      rw [hvar]
      have := t_not_integrable hν 1 (by simpa using not_lt.mp h1)
      simpa [t_pdf_fun_eq erf ν] using this

example : ¬ Integrable (fun x => x * T.pdf RF 1 x) := by
  have h := t_mean_cases erf 1 (by simp [T.valid])
  simpa [T.mean] using h

end Cv.C02M
